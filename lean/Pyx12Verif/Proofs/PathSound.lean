/- C17 helper: whatever the written-out regex search accepts is in the declarative language -/
import Pyx12Verif.Proofs.PathMatch

namespace Pyx12Verif.Path

theorem spanP_spec (p : Char → Bool) (s : List Char) :
    (spanP p s).1 ++ (spanP p s).2 = s ∧ ∀ c ∈ (spanP p s).1, p c = true := by
  induction s with
  | nil => simp [spanP]
  | cons c cs ih =>
    simp only [spanP]; split
    · rename_i h
      refine ⟨by simp [ih.1], ?_⟩
      intro x hx; simp only [List.mem_cons] at hx
      rcases hx with rfl | hx
      · exact h
      · exact ih.2 x hx
    · simp

theorem atEnd_iff (s : List Char) : atEnd s = true ↔ s = [] ∨ s = ['\n'] := by
  match s with
  | [] => simp [atEnd]
  | [c] => simp [atEnd]
  | _ :: _ :: _ => simp [atEnd]

def CCOk (cc : List Char) : Prop := cc = [] ∨ ∃ ds, cc = '-' :: ds ∧ ds ≠ [] ∧ ∀ x ∈ ds, isDigit x = true
def NLOk (nl : List Char) : Prop := nl = [] ∨ nl = ['\n']
def EEOk (ee : List Char) : Prop := ee = [] ∨ ∃ d1 d2, ee = [d1, d2] ∧ isDigit d1 = true ∧ isDigit d2 = true
def QOk (q : List Char) : Prop :=
  q = [] ∨ ∃ t, q = '[' :: (t ++ [']']) ∧ t ≠ [] ∧ ∀ x ∈ t, isIdChar x = true

theorem matchSub_sound (s : List Char) (c : Option Nat) (h : matchSub s = some c) :
    ∃ cc nl, s = cc ++ nl ∧ CCOk cc ∧ NLOk nl := by
  unfold matchSub at h
  cases hg : subGroup s with
  | some r =>
    cases s with
    | nil => simp [subGroup] at hg
    | cons ch r' =>
      simp only [subGroup] at hg
      split at hg
      · rename_i hch
        split at hg
        · rename_i hcond
          simp only [Bool.and_eq_true, Bool.not_eq_true', atEnd_iff] at hcond
          obtain ⟨happ, hdig⟩ := spanP_spec isDigit r'
          refine ⟨'-' :: (spanP isDigit r').1, (spanP isDigit r').2, ?_, ?_, hcond.2⟩
          · rw [hch]; simp [happ]
          · right
            refine ⟨_, rfl, ?_, hdig⟩
            intro e; rw [e] at hcond; simp at hcond
        · cases hg
      · cases hg
  | none =>
    rw [hg] at h
    by_cases he : atEnd s = true
    · exact ⟨[], s, by simp, Or.inl rfl, (atEnd_iff s).mp he⟩
    · simp [he] at h

theorem matchEle_sound (s : List Char) (ec : Option Nat × Option Nat) (h : matchEle s = some ec) :
    ∃ ee cc nl, s = ee ++ (cc ++ nl) ∧ EEOk ee ∧ CCOk cc ∧ NLOk nl := by
  unfold matchEle at h
  cases hg : eleGroup s with
  | some r =>
    match s, hg with
    | d1 :: d2 :: r', hg =>
      simp only [eleGroup] at hg
      split at hg
      · rename_i hd
        simp only [Bool.and_eq_true] at hd
        cases hm : matchSub r' with
        | none => rw [hm] at hg; cases hg
        | some c =>
          obtain ⟨cc, nl, hs, hcc, hnl⟩ := matchSub_sound r' c hm
          exact ⟨[d1, d2], cc, nl, by simp [hs], Or.inr ⟨d1, d2, rfl, hd.1, hd.2⟩, hcc, hnl⟩
      · cases hg
  | none =>
    rw [hg] at h
    cases hm : matchSub s with
    | none => rw [hm] at h; cases h
    | some c =>
      obtain ⟨cc, nl, hs, hcc, hnl⟩ := matchSub_sound s c hm
      exact ⟨[], cc, nl, by simpa using hs, Or.inl rfl, hcc, hnl⟩

theorem matchQual_sound (s : List Char) (m : Last) (h : matchQual s = some m) :
    ∃ q ee cc nl, s = q ++ (ee ++ (cc ++ nl)) ∧ QOk q ∧ EEOk ee ∧ CCOk cc ∧ NLOk nl := by
  unfold matchQual at h
  cases hg : qualGroup s with
  | some r =>
    cases s with
    | nil => simp [qualGroup] at hg
    | cons ch r' =>
      simp only [qualGroup] at hg
      split at hg
      · rename_i hch
        have hsp := spanP_spec isIdChar r'
        rcases hx : spanP isIdChar r' with ⟨q1, q2⟩
        rw [hx] at hsp hg
        simp only at hsp hg
        obtain ⟨happ, hall⟩ := hsp
        cases q2 with
        | nil => simp [qualClose] at hg
        | cons b rest =>
          simp only [qualClose] at hg
          split at hg
          · rename_i hcond
            simp only [Bool.and_eq_true, decide_eq_true_eq, Bool.not_eq_true'] at hcond
            cases hm : matchEle rest with
            | none => rw [hm] at hg; cases hg
            | some ec =>
              obtain ⟨ee, cc, nl, hs, hee, hcc, hnl⟩ := matchEle_sound rest ec hm
              refine ⟨'[' :: (q1 ++ [']']), ee, cc, nl, ?_, ?_, hee, hcc, hnl⟩
              · rw [hch, ← happ, hcond.1, hs]; simp
              · right
                refine ⟨_, rfl, ?_, hall⟩
                intro e; rw [e] at hcond; simp at hcond
          · cases hg
      · cases hg
  | none =>
    rw [hg] at h
    cases hm : matchEle s with
    | none => rw [hm] at h; cases h
    | some ec =>
      obtain ⟨ee, cc, nl, hs, hee, hcc, hnl⟩ := matchEle_sound s ec hm
      exact ⟨[], ee, cc, nl, by simpa using hs, Or.inl rfl, hee, hcc, hnl⟩

theorem segShape_ok (t : List Char) (hl : t.length = 2 ∨ t.length = 3) (h : segShape t = true) :
    SegIdOK t := by
  cases t with
  | nil => simp [segShape] at h
  | cons a r =>
    simp only [segShape, Bool.and_eq_true, List.all_eq_true] at h
    refine ⟨hl, ?_, a, r, rfl, h.1⟩
    intro x hx; simp only [List.mem_cons] at hx
    rcases hx with rfl | hx
    · simp [isIdChar, h.1]
    · exact h.2 x hx

theorem trySeg_sound (n : Nat) (hn : n = 2 ∨ n = 3) (s : List Char) (m : Last)
    (h : trySeg n s = some m) : IsDesignator s := by
  unfold trySeg at h
  split at h
  · rename_i hcond
    simp only [Bool.and_eq_true, decide_eq_true_eq] at hcond
    cases hm : matchQual (s.drop n) with
    | none => rw [hm] at h; cases h
    | some m' =>
      obtain ⟨q, ee, cc, nl, hs, hq, hee, hcc, hnl⟩ := matchQual_sound _ m' hm
      refine ⟨s.take n, q, ee, cc, nl, ?_, Or.inr (segShape_ok _ ?_ hcond.2), hq, hee, hcc, hnl⟩
      · rw [← hs]; exact (List.take_append_drop n s).symm
      · rw [hcond.1]; exact hn
  · cases h

/-- soundness of the matcher: a component the search accepts is in the declarative language -/
theorem matchLast_sound (s : List Char) (m : Last) (h : matchLast s = some m) : IsDesignator s := by
  unfold matchLast at h
  cases h3 : trySeg 3 s with
  | some m3 => exact trySeg_sound 3 (Or.inr rfl) s m3 h3
  | none =>
    rw [h3] at h
    cases h2 : trySeg 2 s with
    | some m2 => exact trySeg_sound 2 (Or.inl rfl) s m2 h2
    | none =>
      rw [h2] at h
      obtain ⟨q, ee, cc, nl, hs, hq, hee, hcc, hnl⟩ := matchQual_sound s m h
      exact ⟨[], q, ee, cc, nl, by simpa using hs, Or.inl rfl, hq, hee, hcc, hnl⟩

theorem matchLast_none_of_not_designator (s : List Char) (h : ¬ IsDesignator s) : matchLast s = none := by
  cases hm : matchLast s with
  | none => rfl
  | some m => exact absurd (matchLast_sound s m hm) h

end Pyx12Verif.Path

namespace Pyx12Verif.Path

/-! ### completeness: every text of the declarative language is accepted -/

theorem nl_head_not (p : Char → Bool) (hp : p '\n' = false) (nl : List Char) (hnl : NLOk nl) :
    ∀ c r, nl = c :: r → p c = false := by
  intro c r h
  rcases hnl with h0 | h0
  · rw [h0] at h; cases h
  · rw [h0] at h; simp only [List.cons.injEq] at h; rw [← h.1]; exact hp

theorem matchSub_complete (cc nl : List Char) (hcc : CCOk cc) (hnl : NLOk nl) :
    ∃ c, matchSub (cc ++ nl) = some c := by
  have hend : atEnd nl = true := (atEnd_iff nl).mpr hnl
  rcases hcc with rfl | ⟨ds, rfl, hne, hd⟩
  · have : subGroup nl = none := by
      rcases hnl with rfl | rfl <;> simp [subGroup]
    exact ⟨none, by simp [matchSub, this, hend]⟩
  · have hs := spanP_append isDigit ds nl hd (nl_head_not isDigit (by decide) nl hnl)
    have hemp : ds.isEmpty = false := by
      cases ds with
      | nil => exact absurd rfl hne
      | cons a b => rfl
    exact ⟨some (num ds), by simp [matchSub, subGroup, hs, hemp, hend]⟩

theorem matchEle_complete (ee cc nl : List Char) (hee : EEOk ee) (hcc : CCOk cc) (hnl : NLOk nl) :
    ∃ ec, matchEle (ee ++ (cc ++ nl)) = some ec := by
  obtain ⟨c, hc⟩ := matchSub_complete cc nl hcc hnl
  rcases hee with rfl | ⟨d1, d2, rfl, h1, h2⟩
  · cases hg : eleGroup (cc ++ nl) with
    | some r => exact ⟨r, by simp [matchEle, hg]⟩
    | none => exact ⟨(none, c), by simp [matchEle, hg, hc]⟩
  · exact ⟨(some (num [d1, d2]), c), by simp [matchEle, eleGroup, h1, h2, hc]⟩

theorem matchQual_complete (q ee cc nl : List Char) (hq : QOk q) (hee : EEOk ee) (hcc : CCOk cc)
    (hnl : NLOk nl) : ∃ m, matchQual (q ++ (ee ++ (cc ++ nl))) = some m := by
  obtain ⟨ec, hec⟩ := matchEle_complete ee cc nl hee hcc hnl
  rcases hq with rfl | ⟨t, rfl, hne, ht⟩
  · cases hg : qualGroup (ee ++ (cc ++ nl)) with
    | some r => exact ⟨r, by simp [matchQual, hg]⟩
    | none => exact ⟨⟨none, none, ec.1, ec.2⟩, by simp [matchQual, hg, hec]⟩
  · have hs : spanP isIdChar (t ++ (']' :: (ee ++ (cc ++ nl)))) = (t, ']' :: (ee ++ (cc ++ nl))) :=
      spanP_append isIdChar t _ ht (by
        intro ch r' h; simp only [List.cons.injEq] at h; rw [← h.1]; decide)
    have hemp : t.isEmpty = false := by
      cases t with
      | nil => exact absurd rfl hne
      | cons a b => rfl
    exact ⟨⟨none, some t, ec.1, ec.2⟩, by simp [matchQual, qualGroup, hs, qualClose, hemp, hec]⟩

theorem matchLast_complete (s : List Char) (h : IsDesignator s) : ∃ m, matchLast s = some m := by
  obtain ⟨seg, q, ee, cc, nl, rfl, hseg, hq, hee, hcc, hnl⟩ := h
  obtain ⟨m, hm⟩ := matchQual_complete q ee cc nl hq hee hcc hnl
  rcases hseg with rfl | ⟨hlen, hall, a, r, rfl, ha⟩
  · -- no segment id: whatever the seg-id attempts do, the last alternative succeeds
    simp only [List.nil_append, matchLast]
    cases trySeg 3 (q ++ (ee ++ (cc ++ nl))) with
    | some m3 => exact ⟨m3, rfl⟩
    | none =>
      cases trySeg 2 (q ++ (ee ++ (cc ++ nl))) with
      | some m2 => exact ⟨m2, rfl⟩
      | none => exact ⟨m, hm⟩
  · rcases hlen with h2 | h3
    · match r, h2 with
      | [b], _ =>
        have hb : isIdChar b = true := hall b (by simp)
        have t2 : trySeg 2 ([a, b] ++ (q ++ (ee ++ (cc ++ nl)))) = some (withSeg [a, b] m) := by
          simp [trySeg, segShape, ha, hb, hm]
        simp only [matchLast]
        cases trySeg 3 ([a, b] ++ (q ++ (ee ++ (cc ++ nl)))) with
        | some m3 => exact ⟨m3, rfl⟩
        | none => exact ⟨withSeg [a, b] m, by simp only [t2]⟩
    · match r, h3 with
      | [b, c3], _ =>
        have hb : isIdChar b = true := hall b (by simp)
        have hc3 : isIdChar c3 = true := hall c3 (by simp)
        exact ⟨withSeg [a, b, c3] m, by simp [matchLast, trySeg, segShape, ha, hb, hc3, hm]⟩

/-- the written-out regex search accepts exactly the declarative language -/
theorem matchLast_none_iff (s : List Char) : matchLast s = none ↔ ¬ IsDesignator s := by
  constructor
  · intro h hd
    obtain ⟨m, hm⟩ := matchLast_complete s hd
    rw [h] at hm; cases hm
  · exact matchLast_none_of_not_designator s

end Pyx12Verif.Path
