/-
Every code printed in the HTML report of a completed run is one of pyx12's literals (no `<`, `>`, `&`):
`validateRead_codes` (all `err_handler` calls of a run carry literal codes, so does the final tree — Proofs/DocSinksEvents.lean,
Proofs/DocSinksCodes.lean) and `htmlLoop_plain` / `footer_plain` (the messages handed to `gen_seg` / written by `footer`).
-/
import Pyx12Verif.Proofs.DocSinksEvents
import Pyx12Verif.Proofs.DocSinksHtml
import Pyx12Verif.Proofs.DocSinksNodes

namespace Pyx12Verif.Doc
open Pyx12Verif

/-! ### the calls of a whole run -/

theorem runSegs_codes (ms : Maps) (ctx : Ctx) (control : MapX) (d : Delims) :
    ∀ (segs : List (List SegText.RErr × Seg)) (a a' : Acc), RdP a.st.pend → (∀ o ∈ a.outs, EvP o.events) →
      Codes.stateP Plain a.est → runSegs ms ctx control d a segs = .done a' →
      RdP a'.st.pend ∧ (∀ o ∈ a'.outs, EvP o.events) ∧ Codes.stateP Plain a'.est
  | [], a, a', h1, h2, h3 => by
    intro h
    simp only [runSegs, LoopEnd.done.injEq] at h
    subst h
    exact ⟨h1, h2, h3⟩
  | p :: ps, a, a', h1, h2, h3 => by
    intro h
    simp only [runSegs] at h
    split at h
    · simp at h
    · rename_i st out hstep
      split at h
      · simp at h
      · rename_i est hest
        obtain ⟨g1, g2⟩ := stepSeg_codes ms ctx control d _ _ _ _ _ h1 hstep
        refine runSegs_codes ms ctx control d ps _ a' (by simpa [pushOut] using g1) ?_ ?_ h
        · intro o ho
          simp only [pushOut, List.mem_append, List.mem_singleton] at ho
          rcases ho with ho | rfl
          · exact h2 o ho
          · exact g2
        · simp only [pushOut]
          exact Codes.run_P _ _ _ g2 h3 hest

/-- a run that ends with a verdict: every `err_handler` call carried a literal code; so does every code of the final tree -/
theorem validateRead_codes (ms : Maps) (ctx : Ctx) (h : Tokenizer.Header) (rr : SegText.ReadResult) (b : Bool)
    (hv : (validateRead ms ctx h rr).outcome = .verdict b) :
    (∀ o ∈ (validateRead ms ctx h rr).segs, EvP o.events) ∧ Codes.treeP Plain (validateRead ms ctx h rr).final.tree := by
  unfold validateRead at hv ⊢
  cases hc : findMap ms (controlFile h) with
  | none => simp [hc, emptyResult] at hv
  | some control =>
    simp only [hc] at hv ⊢
    cases hl : runSegs ms ctx control (SegText.delimsOf h) (initAcc ms control) rr.segs with
    | stopped o a =>
      simp only [hl, finish] at hv
      have := runSegs_nv ms ctx control _ _ _ _ _ hl
      rw [hv] at this
      exact this.elim
    | done a =>
      obtain ⟨g1, g2, g3⟩ := runSegs_codes ms ctx control _ _ _ _ (by simp [initAcc, initState, RdP])
        (by intro o ho; simp [initAcc] at ho) (by simp only [initAcc]; exact Codes.init_P) hl
      simp only [hl, finish] at hv ⊢
      split at hv
      · simp at hv
      · split
        · rename_i hcr _; simp_all
        · unfold finishDone at hv ⊢
          split at hv
          · simp at hv
          · rename_i est hest
            exact ⟨g2, (Codes.run_P _ _ _ (finalErrs_codes rr a.st g1) g3 hest).1⟩

/-! ### the messages of the report -/

theorem msgOf_code (sc : SinkCtx) (t : ErrTree.Tree) (e : ErrIter.Err) : (msgOf sc t e).code = e.code := by
  unfold msgOf
  split <;> rfl

theorem preErrs_plain (t : ErrTree.Tree) (h : Codes.treeP Plain t) (l : List ErrIter.Addr) (sid : Str) :
    ∀ e ∈ preErrs t l sid, Plain e.code := by
  intro e he
  simp only [preErrs, List.mem_flatMap, List.mem_filter] at he
  obtain ⟨a, _, he, _⟩ := he
  exact Codes.nodeShown_P t h a sid e he

theorem postErrs_plain (t : ErrTree.Tree) (h : Codes.treeP Plain t) (l : List ErrIter.Addr) (sid : Str) :
    ∀ e ∈ postErrs t l sid, Plain e.code := by
  intro e he
  simp only [postErrs, List.mem_flatMap, List.mem_append, List.mem_filter] at he
  obtain ⟨a, _, he⟩ := he
  rcases he with ⟨he, _⟩ | he
  · exact Codes.nodeShown_P t h a sid e he
  · exact Codes.eleShown_P t h a sid e he

/-- the messages of an annotation carry literal codes -/
def AnnPlain (a : Html.Ann) : Prop := (∀ m ∈ a.pre, Html.plainCode m.code) ∧ ∀ m ∈ a.post, Html.plainCode m.code

theorem annOf_plain (sc : SinkCtx) (t : ErrTree.Tree) (h : Codes.treeP Plain t) (l : List ErrIter.Addr) (sid : Str)
    (info : Option Str) : AnnPlain (annOf sc t l sid info) := by
  constructor
  · intro m hm
    simp only [annOf, List.mem_map] at hm
    obtain ⟨e, he, rfl⟩ := hm
    rw [msgOf_code]
    exact preErrs_plain t h l sid e he
  · intro m hm
    simp only [annOf, List.mem_map] at hm
    obtain ⟨e, he, rfl⟩ := hm
    rw [msgOf_code]
    exact postErrs_plain t h l sid e he

theorem roundView_plain (sc : SinkCtx) (t : ErrTree.Tree) (ht : Codes.treeP Plain t) (c : ErrIter.Cursor) (p : Round)
    (o : Option NodeView) (sa : Html.Seg × Html.Ann) (h : roundView sc t c p o = some sa) : AnnPlain sa.2 := by
  cases o with
  | none => simp [roundView] at h
  | some v =>
    simp only [roundView] at h
    cases hh : htmlSeg p.2 with
    | none => simp [hh, roundAnn] at h
    | some hs =>
      simp only [hh, roundAnn, Option.some.injEq] at h
      subst h
      exact annOf_plain sc t ht _ _ _

theorem htmlLoop_plain (ms : Maps) (sc : SinkCtx) : ∀ (rounds : List Round) (rs : ErrIter.RState)
    (q : List (Html.Seg × Html.Ann) × ErrIter.RState), Codes.stateP Plain rs.st → (∀ p ∈ rounds, EvP p.1.events) →
    htmlLoop ms sc rs rounds = some q → ∀ sa ∈ q.1, AnnPlain sa.2
  | [], rs, q, _, _ => by
    intro h
    simp only [htmlLoop, Option.some.injEq] at h
    subst h
    intro sa hsa
    cases hsa
  | p :: r, rs, q, hst, hev => by
    intro h
    simp only [htmlLoop] at h
    split at h
    · simp at h
    · rename_i st1 hst1
      have hp1 := Codes.run_P _ _ _ (hev p (by simp)) hst hst1
      split at h
      · simp at h
      · rename_i sa hsa
        split at h
        · simp at h
        · rename_i q' hq'
          simp only [Option.some.injEq] at h
          subst h
          intro x hx
          rcases List.mem_cons.1 hx with rfl | hx
          · exact roundView_plain sc _ hp1.1 _ p _ _ hsa
          · exact htmlLoop_plain ms sc r _ q' hp1 (fun y hy => hev y (by simp [hy])) hq' x hx

theorem footer_plain (sc : SinkCtx) (final : ErrTree.State) (h : Codes.treeP Plain final.tree) :
    ∀ m ∈ (ErrIter.footer final).map (msgOf sc final.tree), Html.plainCode m.code := by
  intro m hm
  obtain ⟨e, he, rfl⟩ := List.mem_map.1 hm
  rw [msgOf_code]
  exact Codes.footer_P final h e he

/-- the writes of a run, with the codes of all messages known to be literals -/
theorem docHtmlWrites_report_plain (ms : Maps) (ctx : Ctx) (sc : SinkCtx) (text : List Char) (ws : List (List Char))
    (h : docHtmlWrites ms ctx sc text = some ws) :
    ∃ hd pairs tail, ws = Html.report sc.date (htmlDelims (SegText.delimsOf hd)) pairs tail ∧
      (∀ sa ∈ pairs, AnnPlain sa.2) ∧ (∀ m ∈ tail, Html.plainCode m.code) ∧
      ∀ sa ∈ pairs, ∀ i, sa.2.info = some i → ∃ v lid, i = loopInfoText sc v lid := by
  unfold docHtmlWrites at h
  split at h
  · simp at h
  · rename_i hd rr hread
    cases hr : roundsOf (validateRead ms ctx hd rr) rr with
    | none => simp [hr, htmlOfRounds] at h
    | some rounds =>
      simp only [hr, htmlOfRounds] at h
      cases hl : htmlLoop ms sc ErrIter.RState.init rounds with
      | none => simp [hl, htmlWritesOf] at h
      | some q =>
        simp only [hl, htmlWritesOf, Option.some.injEq] at h
        obtain ⟨⟨b, hb⟩, h1, _⟩ := roundsOf_spec _ _ _ hr
        obtain ⟨hev, hfin⟩ := validateRead_codes ms ctx hd rr b hb
        have hev' : ∀ p ∈ rounds, EvP p.1.events := by
          intro p hp
          apply hev
          rw [← h1]
          exact List.mem_map.2 ⟨p, hp, rfl⟩
        refine ⟨hd, q.1, _, h.symm, htmlLoop_plain ms sc rounds _ q Codes.init_P hev' hl, footer_plain sc _ hfin,
          (htmlLoop_spec ms sc rounds _ q hl).2⟩

/-! ### classification of the writes, unconditional -/

/-- what a write of the report is -/
def ClassifiedU (date : List Char) (infoOK : List Char → Prop) (w : List Char) : Prop :=
  w = Html.headerText date ∨ w = Html.footerText ∨
    (∃ i, infoOK i ∧ w = Html.infoLine i) ∨
    (∃ m : Html.Msg, w = Html.msgLine m ∧ Html.tags w = "<span class=\"error\"></span><br />".toList ∧
        Html.unescape (Html.stripTags w) = Html.shown m) ∨
    (∃ marks n s d, w = Html.segLineM marks n s d ∧
      Html.tags w = Html.spanSegOpen ++ Html.shapeTags marks 1 (Html.shape s) ++ "</span><br />".toList ∧
      Html.unescape (Html.stripTags w) = Html.render n s d)

theorem msg_classifiedU (date : List Char) (infoOK : List Char → Prop) (ms : List Html.Msg)
    (hp : ∀ m ∈ ms, Html.plainCode m.code) : ∀ w ∈ ms.map Html.msgLine, ClassifiedU date infoOK w := by
  intro w hw
  obtain ⟨m, hm, rfl⟩ := List.mem_map.1 hw
  have := Html.messages_escaped m (hp m hm)
  exact Or.inr (Or.inr (Or.inr (Or.inl ⟨m, rfl, this.1, this.2⟩)))

theorem genSeg_classifiedU (date : List Char) (infoOK : List Char → Prop) (d : Html.Delims) (n : Nat) (s : Html.Seg) (a : Html.Ann)
    (hi : ∀ i, a.info = some i → infoOK i) (hp : AnnPlain a) : ∀ w ∈ Html.genSeg d n s a, ClassifiedU date infoOK w := by
  intro w hw
  simp only [Html.genSeg, List.mem_append, List.mem_singleton] at hw
  rcases hw with ((hw | hw) | hw) | hw
  · exact msg_classifiedU date infoOK _ hp.1 w hw
  · cases hinfo : a.info with
    | none => simp [hinfo, Html.infoWrites] at hw
    | some i =>
      simp only [hinfo, Html.infoWrites, List.mem_singleton] at hw
      exact Or.inr (Or.inr (Or.inl ⟨i, hi i hinfo, hw⟩))
  · subst hw
    exact Or.inr (Or.inr (Or.inr (Or.inr ⟨a.marks, n, s, d, rfl, Html.segment_line_escaped _ _ _ _,
      Html.strip_recovers_segment _ _ _ _⟩)))
  · exact msg_classifiedU date infoOK _ hp.2 w hw

theorem segLoop_classifiedU (date : List Char) (infoOK : List Char → Prop) (d : Html.Delims) :
    ∀ (segs : List (Html.Seg × Html.Ann)) (n : Nat), (∀ sa ∈ segs, ∀ i, sa.2.info = some i → infoOK i) →
      (∀ sa ∈ segs, AnnPlain sa.2) → ∀ w ∈ Html.segLoop d n segs, ClassifiedU date infoOK w
  | [], _, _, _ => by intro w hw; simp [Html.segLoop] at hw
  | sa :: r, n, hi, hp => by
    intro w hw
    simp only [Html.segLoop, List.mem_append] at hw
    rcases hw with hw | hw
    · exact genSeg_classifiedU date infoOK d _ _ _ (hi sa (by simp)) (hp sa (by simp)) w hw
    · exact segLoop_classifiedU date infoOK d r (n + 1) (fun x hx => hi x (by simp [hx])) (fun x hx => hp x (by simp [hx])) w hw

theorem report_classifiedU (date : List Char) (infoOK : List Char → Prop) (d : Html.Delims) (segs : List (Html.Seg × Html.Ann))
    (tail : List Html.Msg) (hi : ∀ sa ∈ segs, ∀ i, sa.2.info = some i → infoOK i) (hp : ∀ sa ∈ segs, AnnPlain sa.2)
    (ht : ∀ m ∈ tail, Html.plainCode m.code) : ∀ w ∈ Html.report date d segs tail, ClassifiedU date infoOK w := by
  intro w hw
  simp only [Html.report, List.mem_append, List.mem_singleton] at hw
  rcases hw with ((hw | hw) | hw) | hw
  · exact Or.inl hw
  · exact segLoop_classifiedU date infoOK d segs 0 hi hp w hw
  · exact msg_classifiedU date infoOK _ ht w hw
  · exact Or.inr (Or.inl hw)

end Pyx12Verif.Doc
