/-
Helper lemmas for `Props/DocTotal2.lean`:
* an exception that ends a round BEFORE the error handler is fed (`Step.stop`) never carries an `errTree` site;
* the first round (ISA) started on the fresh error handler.
-/
import Pyx12Verif.Proofs.DocSharpLoop

namespace Pyx12Verif.Doc
open Pyx12Verif

/-! ### `node.is_valid` raises nothing that is attributed to the error handler -/

def Site.NoTree (s : Site) : Prop := ∀ c, s ≠ .errTree c

def ERes.NoTree (r : ERes) : Prop := ∀ site, r = .crash site → site.NoTree

theorem ERes.ok_noTree (v : Bool) (evs : List Event) : (ERes.ok v evs).NoTree := by
  intro site h; cases h

theorem andThen_noTree {a b : ERes} (ha : a.NoTree) (hb : b.NoTree) : (a.andThen b).NoTree := by
  intro site h
  cases a with
  | crash s => simp only [ERes.andThen] at h; exact ha site h
  | ok v x =>
    cases b with
    | crash s => simp only [ERes.andThen] at h; exact hb site h
    | ok w y => simp [ERes.andThen] at h

theorem elemEvents_noTree (ctx : Ctx) (v5 : Bool) (pos : Nat) (sub : Option Nat) (e : ElemX) (tl : List Str) (i : EIn) :
    (elemEvents ctx v5 pos sub e tl i).NoTree := by
  intro site h
  unfold elemEvents at h
  split at h
  · injection h with h; subst h; intro c hc; cases hc
  · cases h

theorem kidsEvents_noTree (ctx : Ctx) (v5 : Bool) (pos : Nat) : ∀ (ks : List ElemX) (vs : List Str),
    (kidsEvents ctx v5 pos ks vs).NoTree := by
  intro ks
  induction ks with
  | nil => intro vs; simp only [kidsEvents]; exact ERes.ok_noTree _ _
  | cons k ks ih =>
    intro vs
    cases vs with
    | nil => simp only [kidsEvents]; exact andThen_noTree (elemEvents_noTree _ _ _ _ _ _ _) (ih [])
    | cons v vs => simp only [kidsEvents]; exact andThen_noTree (elemEvents_noTree _ _ _ _ _ _ _) (ih vs)

theorem compEvents_noTree (ctx : Ctx) (v5 : Bool) (u : Usage) (seq : Nat) (nm rd : Str) (de : Option Str)
    (kids : List ElemX) (data : Option (List Str)) : (compEvents ctx v5 u seq nm rd de kids data).NoTree := by
  cases data with
  | none => cases u <;> exact ERes.ok_noTree _ _
  | some vs =>
    simp only [compEvents]
    split
    · exact ERes.ok_noTree _ _
    · split
      · exact ERes.ok_noTree _ _
      · unfold compPresentEvents
        split
        · exact ERes.ok_noTree _ _
        · exact andThen_noTree (ERes.ok_noTree _ _) (kidsEvents_noTree _ _ _ _ _)

theorem elemAt_noTree (ctx : Ctx) (v5 : Bool) (sep : Char) (x : ElemX) (tl : List Str) (data : List Str) :
    (elemAt ctx v5 sep x tl data).NoTree := by
  unfold elemAt
  cases elemIn sep data with
  | none => intro site h; injection h with h; subst h; intro c hc; cases hc
  | some i => exact elemEvents_noTree _ _ _ _ _ _ _

theorem childAbsent_noTree (ctx : Ctx) (v5 : Bool) (c : ChildX) : (childAbsent ctx v5 c).NoTree := by
  cases c with
  | elem x => exact elemEvents_noTree _ _ _ _ _ _ _
  | comp u seq nm rd de kids => simp only [childAbsent]; exact compEvents_noTree _ _ _ _ _ _ _ _ _

theorem childPresent_noTree (ctx : Ctx) (v5 : Bool) (sep : Char) (sid : Str) (i : Nat) (dt tl : List Str) (data : List Str)
    (c : ChildX) : (childPresent ctx v5 sep sid i dt tl data c).NoTree := by
  cases c with
  | elem x => exact elemAt_noTree _ _ _ _ _ _
  | comp u seq nm rd de kids => simp only [childPresent]; exact compEvents_noTree _ _ _ _ _ _ _ _ _

theorem childrenEvents_noTree (ctx : Ctx) (v5 : Bool) (sep : Char) (sid : Str) (v02 : Option Str) :
    ∀ (cs : List ChildX) (i : Nat) (dt tl : List Str) (es : List (List Str)),
      (childrenEvents ctx v5 sep sid v02 i dt tl cs es).NoTree := by
  intro cs
  induction cs with
  | nil => intro i dt tl es; simp only [childrenEvents]; exact ERes.ok_noTree _ _
  | cons c cs ih =>
    intro i dt tl es
    cases es with
    | nil =>
      simp only [childrenEvents]
      exact andThen_noTree (childAbsent_noTree _ _ _) (ih _ _ _ [])
    | cons e es =>
      simp only [childrenEvents]
      exact andThen_noTree (childPresent_noTree _ _ _ _ _ _ _ _ _) (ih _ _ _ es)

theorem tooManyEvents_noTree (d : Delims) (sd : SegDef) (s : Seg) : (tooManyEvents d sd s).NoTree := by
  intro site h
  unfold tooManyEvents at h
  split at h
  · split at h
    · injection h with h; subst h; intro c hc; cases hc
    · unfold tooManyValue at h
      split at h
      · injection h with h; subst h; intro c hc; cases hc
      · cases h
      · cases h
  · cases h

theorem notesEvents_noTree (sd : SegDef) (sid : Str) (vals : List Str) : ∀ (ns : List Syn.Note),
    (notesEvents sd sid vals ns).NoTree := by
  intro ns
  induction ns with
  | nil => simp only [notesEvents]; exact ERes.ok_noTree _ _
  | cons n ns ih =>
    simp only [notesEvents]
    cases Syn.routeNote vals n with
    | none => intro site h; injection h with h; subst h; intro c hc; cases hc
    | some errs => exact andThen_noTree (ERes.ok_noTree _ _) ih

theorem segEvents_noTree (ctx : Ctx) (v5 : Bool) (d : Delims) (sd : SegDef) (s : Seg) :
    (segEvents ctx v5 d sd s).NoTree := by
  unfold segEvents
  refine andThen_noTree (andThen_noTree (tooManyEvents_noTree d sd s) (childrenEvents_noTree _ _ _ _ _ _ _ _ _ _)) ?_
  unfold notesOn
  cases SegText.formatComps (Pipeline.sepOf d s.id) s.elems with
  | none => intro site h; injection h with h; subst h; intro c hc; cases hc
  | some vals => exact notesEvents_noTree _ _ _ _

/-! ### a round that stops -/

def Outcome.NoTree (o : Outcome) : Prop := ∀ c, o ≠ .crash (.errTree c)

theorem withNewMap_stop (ms : Maps) (st : LState) (file : Option Str) (k : LState → MapX → Branch) (o : Outcome)
    (hk : ∀ st2 m, k st2 m = .stop o → o.NoTree) (h : withNewMap ms st file k = .stop o) : o.NoTree := by
  unfold withNewMap at h
  cases file with
  | none => simp only [Branch.stop.injEq] at h; subst h; intro c hc; cases hc
  | some f =>
    simp only at h
    cases hm : findMap ms f with
    | none => simp only [hm, Branch.stop.injEq] at h; subst h; intro c hc; cases hc
    | some m => simp only [hm] at h; exact hk _ m h

theorem gsTail_stop (ms : Maps) (d : Delims) (s : Seg) (st : LState) (m : MapX) (o : Outcome)
    (h : gsTail ms d s st m = .stop o) : o.NoTree := by
  unfold gsTail at h
  cases hf : fetchIn ms m (gsPath ms) with
  | none => simp only [hf, Branch.stop.injEq] at h; subst h; intro c hc; cases hc
  | some n => simp only [hf] at h; cases h

theorem bhtSwitch_stop (ms : Maps) (s : Seg) (st : LState) (m : MapX) (o : Outcome)
    (h : bhtSwitch ms s st m = .stop o) : o.NoTree := by
  unfold bhtSwitch at h
  cases hf : fetchIn ms m (bhtPath ms) with
  | none => simp only [hf, Branch.stop.injEq] at h; subst h; intro c hc; cases hc
  | some n => simp only [hf, plainTail] at h; cases h

theorem branch_stop (ms : Maps) (d : Delims) (s : Seg) (st : LState) (n : NodeRef) (o : Outcome)
    (h : branch ms d s st n = .stop o) : o.NoTree := by
  unfold branch at h
  split at h
  · cases h
  · split at h
    · cases h
    · split at h
      · unfold gsBranch at h
        split at h
        · exact withNewMap_stop ms _ _ _ o (fun st2 m hk => gsTail_stop ms d s st2 m o hk) h
        · cases hm : st.curMap with
          | none => simp only [hm, Branch.stop.injEq] at h; subst h; intro c hc; cases hc
          | some m => simp only [hm] at h; exact gsTail_stop ms d s _ m o h
      · split at h
        · unfold bhtBranch at h
          split at h
          · split at h
            · exact withNewMap_stop ms _ _ _ o (fun st2 m hk => bhtSwitch_stop ms s st2 m o hk) h
            · simp only [plainTail] at h; cases h
          · simp only [plainTail] at h; cases h
        · split at h
          · cases h
          · split at h
            · cases h
            · split at h
              · cases h
              · simp only [plainTail] at h; cases h

theorem stepSeg_stop (ms : Maps) (ctx : Ctx) (control : MapX) (d : Delims) (le : List SegText.RErr) (s : Seg)
    (st : LState) (o : Outcome) (h : stepSeg ms ctx control d le s st = .stop o) : o.NoTree := by
  unfold stepSeg at h
  cases hv : Pipeline.viewOf d s with
  | none => simp only [hv, withView, Step.stop.injEq] at h; subst h; intro c hc; cases hc
  | some v =>
    simp only [hv, withView] at h
    cases hr : Envelope.step Envelope.Fixes.all st.rs v with
    | crash e => simp only [hr, afterReader, Step.stop.injEq] at h; subst h; intro c hc; cases hc
    | raised => simp only [hr, afterReader, Step.stop.injEq] at h; subst h; intro c hc; cases hc
    | ok r =>
      simp only [hr, afterReader, afterStep] at h
      cases hf : findNode ms control d s r.1.segCount
          { st with rs := r.1, pend := st.pend ++ le.map lineErr ++ baseErrs s ++ r.2.map envErr } with
      | crash site =>
        rw [hf] at h
        simp only [afterFind, Step.stop.injEq] at h
        subst h
        unfold findNode at hf
        split at hf
        · cases hf
        · split at hf
          · cases hf
          · cases hn : st.node with
            | none =>
              simp only [hn, Found.crash.injEq] at hf
              subst hf
              intro c hc; cases hc
            | some cur => simp only [hn, walkFound, foundOf] at hf; cases hf
      | res n cnt evs =>
        rw [hf] at h
        cases n with
        | none => simp only [afterFind] at h; cases h
        | some nd =>
          simp only [afterFind] at h
          cases hb : branch ms d s
              { st with rs := r.1, pend := st.pend ++ le.map lineErr ++ baseErrs s ++ r.2.map envErr, cnt := cnt } nd with
          | stop o' =>
            rw [hb] at h
            simp only [validate, Step.stop.injEq] at h
            subst h
            exact branch_stop _ _ _ _ _ _ hb
          | go st2 n2 evs2 =>
            rw [hb] at h
            simp only [validate] at h
            cases hl : lookupDef n2.map n2.ip with
            | none => simp only [hl, Step.stop.injEq] at h; subst h; intro c hc; cases hc
            | some sd =>
              simp only [hl] at h
              cases hs : segEvents ctx n2.map.v5010 d sd s with
              | crash site =>
                simp only [hs, Step.stop.injEq] at h
                subst h
                intro c hc
                injection hc with hc
                exact segEvents_noTree ctx n2.map.v5010 d sd s site hs c hc
              | ok vv evs3 => simp only [hs] at h; cases h

/-! ### the first round on the fresh handler -/

theorem run_walk_ok : ∀ (w : List Event) (s : ErrTree.State), WalkOnly w → ∃ s', ErrTree.run s w = .ok s' := by
  intro w
  induction w with
  | nil => intro s _; exact ⟨s, rfl⟩
  | cons e r ih =>
    intro s hw
    have he := hw e (by simp)
    have hr : WalkOnly r := fun x hx => hw x (List.mem_cons_of_mem _ hx)
    cases e with
    | addSeg a b c =>
      obtain ⟨s', hs'⟩ := ih (ErrTree.addSeg s a b c) hr
      exact ⟨s', by simp only [ErrTree.run, ErrTree.step, hs']⟩
    | segError c v =>
      obtain ⟨s', hs'⟩ := ih (ErrTree.segError s c v) hr
      exact ⟨s', by simp only [ErrTree.run, ErrTree.step, hs']⟩
    | addIsa _ => simp [isWalk] at he
    | addGs _ => simp [isWalk] at he
    | addSt _ => simp [isWalk] at he
    | addEle _ _ _ => simp [isWalk] at he
    | isaError _ => simp [isWalk] at he
    | gsError _ => simp [isWalk] at he
    | stError _ => simp [isWalk] at he
    | eleError _ _ _ => simp [isWalk] at he
    | closeSt => simp [isWalk] at he
    | closeGs _ _ => simp [isWalk] at he
    | closeIsa => simp [isWalk] at he

/-- reader errors with an interchange node: only a missing group / set node can raise -/
theorem run_rd_crash : ∀ (l : List Event) (s : ErrTree.State) (c : ErrTree.Site), s.curIsa ≠ none → RdOnly l →
    ErrTree.run s l = .crash c → c = .gsErrorNoGs ∨ c = .stErrorNoSt := by
  intro l
  induction l with
  | nil => intro s c _ _ h; cases h
  | cons e r ih =>
    intro s c hi hl h
    have he := hl e (by simp)
    have hr : RdOnly r := fun x hx => hl x (List.mem_cons_of_mem _ hx)
    simp only [ErrTree.run] at h
    cases hs : ErrTree.step s e with
    | ok s1 =>
      rw [hs] at h
      exact ih s1 c ((step_ok_props s s1 e hs).1 hi) hr h
    | crash c' =>
      rw [hs] at h
      injection h with h
      subst h
      cases e with
      | isaError cc =>
        simp only [ErrTree.step, ErrTree.isaError] at hs
        cases hx : s.curIsa with
        | none => exact absurd hx hi
        | some i => rw [hx] at hs; cases hs
      | gsError cc =>
        simp only [ErrTree.step, ErrTree.gsError] at hs
        cases hx : s.curGs with
        | none => rw [hx] at hs; injection hs with hs; exact Or.inl hs.symm
        | some p => rw [hx] at hs; cases hs
      | stError cc =>
        simp only [ErrTree.step, ErrTree.stError] at hs
        cases hx : s.curSt with
        | none => rw [hx] at hs; injection hs with hs; exact Or.inr hs.symm
        | some p => rw [hx] at hs; cases hs
      | segError cc v => cases hs
      | addIsa _ => simp [isRd] at he
      | addGs _ => simp [isRd] at he
      | addSt _ => simp [isRd] at he
      | addSeg _ _ _ => simp [isRd] at he
      | addEle _ _ _ => simp [isRd] at he
      | eleError _ _ _ => simp [isRd] at he
      | closeSt => simp [isRd] at he
      | closeGs _ _ => simp [isRd] at he
      | closeIsa => simp [isRd] at he

/-- `add_ele` / `ele_error` calls in a `Good` state: only `_add_cur_seg` without a set node can raise -/
theorem run_ele_crash (l : List Event) (s : ErrTree.State) (c : ErrTree.Site) (hg : Good s) (hl : EleOnly l)
    (h : ErrTree.run s l = .crash c) : c = .eleErrorNoSt := by
  obtain ⟨pre, e, post, s', hsplit, _, _, hreach⟩ := run_crash_good l s c hg h
  have he : isEle e = true := hl e (by rw [hsplit]; simp)
  cases hreach with
  | gsErr cc h1 _ => subst h1; cases he
  | stErr cc h1 _ => subst h1; cases he
  | eleErr cc m v h1 _ => rfl
  | addSt d h1 _ => subst h1; cases he
  | closeSt h1 _ => subst h1; cases he
  | closeGs g r h1 _ => subst h1; cases he

/-- the ISA round on the fresh handler: what can raise, and what holds afterwards -/
theorem first_round_run (x : ErrTree.IsaData) (w pops tl : List Event) (hw : WalkOnly w) (hp : RdOnly pops)
    (htl : EleOnly tl) (hhead : ∃ p sp rf r, tl = .addEle p sp rf :: r) :
    (∀ c, ErrTree.run ErrTree.State.init (w ++ (.addIsa x :: pops) ++ tl) = .crash c →
      c = .gsErrorNoGs ∨ c = .stErrorNoSt ∨ c = .eleErrorNoSt) ∧
    (∀ est, ErrTree.run ErrTree.State.init (w ++ (.addIsa x :: pops) ++ tl) = .ok est → Good est) := by
  obtain ⟨s0, hs0⟩ := run_walk_ok w ErrTree.State.init hw
  obtain ⟨p, sp, rf, r, rfl⟩ := hhead
  have hr : EleOnly r := fun e he => htl e (List.mem_cons_of_mem _ he)
  have h1 : ErrTree.step s0 (.addIsa x) = .ok (ErrTree.addIsaLoop s0 x) := rfl
  obtain ⟨_, _, _, _, _, a6, _⟩ := step_ok_props s0 _ _ h1
  obtain ⟨i1, i2⟩ := a6 rfl
  have hrun : ErrTree.run ErrTree.State.init (w ++ (.addIsa x :: pops) ++ (.addEle p sp rf :: r)) =
      (match ErrTree.run (ErrTree.addIsaLoop s0 x) pops with
       | .ok s2 => ErrTree.run s2 (.addEle p sp rf :: r)
       | .crash c => .crash c) := by
    rw [run_append, run_append, hs0]
    simp only [ErrTree.run, h1]
    cases ErrTree.run (ErrTree.addIsaLoop s0 x) pops <;> rfl
  rw [hrun]
  cases h2 : ErrTree.run (ErrTree.addIsaLoop s0 x) pops with
  | crash c =>
    refine ⟨?_, fun est h => by cases h⟩
    intro c' hc'
    simp only [ErrTree.Res.crash.injEq] at hc'
    subst hc'
    rcases run_rd_crash pops _ c i1 hp h2 with h | h
    · exact Or.inl h
    · exact Or.inr (Or.inl h)
  | ok s2 =>
    simp only
    obtain ⟨q1, _, _, q4, _, _⟩ := run_ok_props pops _ s2 h2
    obtain ⟨s3, hs3, _, _, b3, _, _, b6⟩ := step_addEle s2 p sp rf (q4 i2)
    have hg3 : Good s3 := by
      refine ⟨by rw [b3]; exact q1 i1, by rw [b6]; exact q4 i2, ?_⟩
      exact (step_ok_props s2 s3 _ hs3).2.2.2.2.2.2.2.2.1 rfl
    simp only [ErrTree.run, hs3]
    refine ⟨?_, fun est h => run_good r s3 est hg3 h⟩
    intro c hc
    exact Or.inr (Or.inr (run_ele_crash r s3 c hg3 hr hc))

end Pyx12Verif.Doc
