/-
C03, structural fault kinds at run level — the simulation for a derivation with one instance too many
(`XList …` of Proofs/C03RunSpec.lean), by recursion over the faulty derivation; the conformant parts before and
after the fault are handled by `g_list …` / `o_list …` of Proofs/WalkerRun3.lean.
-/
import Pyx12Verif.Proofs.C03RunStep
import Pyx12Verif.Props.C02Walk

namespace Pyx12Verif.WalkerGen
open Pyx12Verif.MapSkel Pyx12Verif.Walker

theorem overErr_seg (ip : List Nat) {c : Node} (h : c.isSeg = true) : overErr ip c = (ErrKind.segMaxCount, ip) := by
  simp [overErr, h]

theorem overErr_loop (ip : List Nat) {c : Node} (h : c.isSeg = false) : overErr ip c = (ErrKind.loopMaxCount, ip) := by
  simp [overErr, h]

set_option linter.unusedSectionVars false
section
variable {K : Consts} {root : List Node} (rootId : Nat) (h : MapOK K root) {e : WErr}
  (hsf : e.1 = ErrKind.loopMaxCount → sfList K root = true)
include h hsf

mutual
theorem x_one : ∀ {ip : List Nat} {c : Node} {pre : List Emit} {x : Emit} {post : List Emit}, XOne K e ip c pre x post →
    ∀ (q : List Nat) (j i : Nat) (ch : List Node) (cnt : Counter) (cur : List Nat),
    ip = q ++ [j] → chAt root q = some ch → ch[j]? = some c → Inv root cnt cur → ReadyAt root cnt cur q i j →
    c.usage ≠ 2 → (c.rep = 0 ∨ cnt.get (keyAt root q ++ [c.comp]) < c.rep) →
    (q = [] ∨ 0 < j ∨ firstIsLoop ch = true) →
    AfterX K root rootId cnt cur pre x post e (fun cnt' cur' =>
      ReadyAt root cnt' cur' q j j ∧ AgreeOff cnt cnt' (keyAt root q ++ [c.comp]) ∧
      cnt'.get (keyAt root q ++ [c.comp]) = cnt.get (keyAt root q ++ [c.comp]) + 1)
  | _, _, _, _, _, .loop (lid := lid) (p := p) (u := u) (r := r) (w := w) (first := first) (rest := rest) hseg hm hl,
      q, j, i, ch, cnt, cur, hip, hch, hc, hinv, hr, hu, hrep, hnf => by
    simp only [Node.usage, Node.rep, Node.comp] at hu hrep ⊢
    obtain ⟨hn, hs⟩ := step_loop rootId h hinv hr.on hch hc hseg hm hu hrep
    have hinv1 := post_loop h hinv hr.on hch hc hseg
    have hsub : chAt root (q ++ [j]) = some (first :: rest) := by rw [chAt_snoc hch, hc]
    have hkey : keyAt root (q ++ [j]) = keyAt root q ++ [(lid, 0)] := keyAt_snoc hch hc
    have hr1 : ReadyAt root (enterCnt cnt (keyAt root q ++ [(lid, 0)]) first.comp) (q ++ [j] ++ [0]) (q ++ [j]) 0 1 :=
      ready_skip (ready_here _ _ _ _) (by intro hh; omega)
    have hrec := x_list hl (q ++ [j]) 0 (first :: rest) _ _ hip hsub (by simp) hinv1 hr1 (by omega)
      (Or.inr (Or.inl (by omega)))
    subst hip
    apply AfterX.step hn hs
    refine AfterX.mono hrec ?_
    intro cnt' cur' ⟨⟨i', hi', hra⟩, hso⟩
    rw [hkey] at hso
    refine ⟨ready_up hsub hra (by simp; omega), AgreeOff.trans (agreeOff_enter _ _ _) hso.agree, ?_⟩
    rw [hso _ (fun hh => hh.2 rfl), get_enterCnt_self]
termination_by structural _ _ _ _ _ d => d
theorem x_reps : ∀ {ip : List Nat} {c : Node} {k : Nat} {pre : List Emit} {x : Emit} {post : List Emit},
    XReps K e ip c k pre x post →
    ∀ (q : List Nat) (j i : Nat) (ch : List Node) (cnt : Counter) (cur : List Nat),
    ip = q ++ [j] → chAt root q = some ch → ch[j]? = some c → counted c = true → Inv root cnt cur →
    ReadyAt root cnt cur q i j → cnt.get (keyAt root q ++ [c.comp]) = k →
    (q = [] ∨ 0 < j ∨ firstIsLoop ch = true) →
    AfterX K root rootId cnt cur pre x post e (fun cnt' cur' =>
      (∃ i', i' ≤ j ∧ ReadyAt root cnt' cur' q i' (j + 1)) ∧ AgreeOff cnt cnt' (keyAt root q ++ [c.comp]))
  | _, _, _, _, _, _, .over hu h0 hk hone he, q, j, i, ch, cnt, cur, hip, hch, hc, hcnt, hinv, hr, hget, hnf => by
    subst hip
    cases hone with
    | seg hm =>
      rw [overErr_seg _ rfl] at he; subst he
      obtain ⟨hn, hs⟩ := step_seg_over rootId h hinv hr.on hch hc rfl hm hu h0 (by rw [hget, hk]; exact Nat.le_refl _) hnf
      apply AfterX.fault hn hs
      apply After.nil (post_seg h hinv hr.on hch hc rfl)
      exact ⟨⟨j, Nat.le_refl _, ready_skip (ready_here _ _ _ _) (by intro hh; omega)⟩, agreeOff_incr _ _⟩
    | loop hseg hm hl =>
      rename_i o lid p u r w first rest s
      rw [overErr_loop _ rfl] at he; subst he
      simp only [Node.usage, Node.rep, Node.comp] at hu h0 hk hget ⊢
      obtain ⟨hn, hs⟩ := step_loop_over rootId h hinv hr.on hch hc hseg hm hu h0 (by rw [hget, hk]; exact Nat.le_refl _)
        (selfFollowOK_at (hsf rfl) hch hc)
      have hinv1 := post_loop h hinv hr.on hch hc hseg
      have hsub : chAt root (q ++ [j]) = some (first :: rest) := by rw [chAt_snoc hch, hc]
      have hkey : keyAt root (q ++ [j]) = keyAt root q ++ [(lid, 0)] := keyAt_snoc hch hc
      have hr1 : ReadyAt root (enterCnt cnt (keyAt root q ++ [(lid, 0)]) first.comp) (q ++ [j] ++ [0]) (q ++ [j]) 0 1 :=
        ready_skip (ready_here _ _ _ _) (by intro hh; omega)
      have hrec := g_list rootId h hl (q ++ [j]) 0 (first :: rest) _ _ rfl hsub (by simp) hinv1 hr1 (by omega)
        (Or.inr (Or.inl (by omega)))
      apply AfterX.fault hn hs
      refine After.mono hrec ?_
      intro cnt' cur' ⟨⟨i', hi', hra⟩, hso⟩
      rw [hkey] at hso
      exact ⟨⟨j, Nat.le_refl _, ready_skip (ready_up hsub hra (by simp; omega)) (by intro hh; omega)⟩,
        AgreeOff.trans (agreeOff_enter _ _ _) hso.agree⟩
  | _, _, _, _, _, _, .inside hu hk hone hreps, q, j, i, ch, cnt, cur, hip, hch, hc, hcnt, hinv, hr, hget, hnf => by
    have h1 := x_one hone q j i ch cnt cur hip hch hc hinv hr hu (by rw [hget]; exact hk) hnf
    have := AfterX.append h1 (Q := fun cnt1 cnt' cur' =>
        (∃ i', i' ≤ j ∧ ReadyAt root cnt' cur' q i' (j + 1)) ∧ AgreeOff cnt1 cnt' (keyAt root q ++ [_]))
      (fun cnt1 cur1 hinv1 ⟨hr1, _, hg1⟩ =>
        g_reps rootId h hreps q j j ch cnt1 cur1 hip hch hc hcnt hinv1 hr1 (by rw [hg1, hget]) hnf)
    refine ⟨this.1, this.2.1, this.2.2.1, ?_⟩
    exact AgreeOff.trans h1.2.2.2.1 this.2.2.2
  | _, _, _, _, _, _, .later hu hk hone hreps, q, j, i, ch, cnt, cur, hip, hch, hc, hcnt, hinv, hr, hget, hnf => by
    have h1 := g_one rootId h hone q j i ch cnt cur hip hch hc hinv hr hu (by rw [hget]; exact hk) hnf
    have := AfterX.prepend h1 (Q := fun cnt1 cnt' cur' =>
        (∃ i', i' ≤ j ∧ ReadyAt root cnt' cur' q i' (j + 1)) ∧ AgreeOff cnt1 cnt' (keyAt root q ++ [_]))
      (fun cnt1 cur1 hinv1 ⟨hr1, _, hg1⟩ =>
        x_reps hreps q j j ch cnt1 cur1 hip hch hc hcnt hinv1 hr1 (by rw [hg1, hget]) hnf)
    refine ⟨this.1, this.2.1, this.2.2.1, ?_⟩
    exact AgreeOff.trans h1.2.2.2.1 this.2.2.2
termination_by structural _ _ _ _ _ _ d => d
theorem x_child : ∀ {ip : List Nat} {c : Node} {pre : List Emit} {x : Emit} {post : List Emit}, XChild K e ip c pre x post →
    ∀ (q : List Nat) (j i : Nat) (ch : List Node) (cnt : Counter) (cur : List Nat),
    ip = q ++ [j] → chAt root q = some ch → ch[j]? = some c → Inv root cnt cur →
    ReadyAt root cnt cur q i j → i < j → (q = [] ∨ 0 < j ∨ firstIsLoop ch = true) →
    AfterX K root rootId cnt cur pre x post e (fun cnt' cur' =>
      (∃ i', i' ≤ j ∧ ReadyAt root cnt' cur' q i' (j + 1)) ∧ AgreeOff cnt cnt' (keyAt root q ++ [c.comp]))
  | _, _, _, _, _, .counted hcnt hreps, q, j, i, ch, cnt, cur, hip, hch, hc, hinv, hr, hij, hnf => by
    obtain ⟨ch0, hch0, hl⟩ := hinv.lev q i hr.1
    rw [hch] at hch0; simp only [Option.some.injEq] at hch0; subst hch0
    have hz := hl.later j _ hij hc _ (List.prefix_refl _)
    exact x_reps hreps q j i ch cnt cur hip hch hc hcnt hinv hr hz hnf
  | _, _, _, _, _, .wrapper (lid := l) (p := p) (u := u) (r := r) (w := w) (first := first) (rest := rest) hfs hu hl,
      q, j, i, ch, cnt, cur, hip, hch, hc, hinv, hr, hij, hnf => by
    have hTT : firstIsLoop (first :: rest) = true := by simp [firstIsLoop, hfs]
    have hsubT : chAt root (q ++ [j]) = some (first :: rest) := by rw [chAt_snoc hch, hc]
    have hkeyT : keyAt root (q ++ [j]) = keyAt root q ++ [(Node.loop l p u r w (first :: rest)).comp] := keyAt_snoc hch hc
    have ha : Anchor root cnt cur q i j := ⟨hinv, hr, hij, ch, l, p, u, r, w, first :: rest, hch, hc, hTT⟩
    have haft := y_list hl q i j (q ++ [j]) (first :: rest) cnt cur hip ha (List.prefix_refl _)
      (off_init hsubT hTT) hsubT (by simp)
    refine AfterX.mono haft ?_
    intro cnt' cur' ⟨⟨i', hi', hra⟩, hso⟩
    rw [hkeyT] at hso
    exact ⟨⟨j, Nat.le_refl _, ready_skip (ready_up hsubT hra (by simp)) (by intro hh; omega)⟩, hso.agree⟩
termination_by structural _ _ _ _ _ d => d
theorem x_list : ∀ {lip : List Nat} {j : Nat} {rest : List Node} {pre : List Emit} {x : Emit} {post : List Emit},
    XList K e lip j rest pre x post →
    ∀ (q : List Nat) (i : Nat) (ch : List Node) (cnt : Counter) (cur : List Nat),
    lip = q → chAt root q = some ch → ch.drop j = rest → Inv root cnt cur →
    ReadyAt root cnt cur q i j → i < j → (q = [] ∨ 0 < j ∨ firstIsLoop ch = true) →
    AfterX K root rootId cnt cur pre x post e (fun cnt' cur' =>
      (∃ i', i' < j + rest.length ∧ ReadyAt root cnt' cur' q i' (j + rest.length)) ∧
      StrictOff cnt cnt' (keyAt root q))
  | _, _, _, _, _, _, .here (i := j) (c := c) (r := r) hchild hlist, q, i, ch, cnt, cur, hip, hch, hd, hinv, hr, hij, hnf => by
    obtain ⟨hc, hd'⟩ := drop_cons_get hd
    have h1 := x_child hchild q j i ch cnt cur (by rw [hip]) hch hc hinv hr hij hnf
    have := AfterX.append h1 (Q := fun cnt1 cnt' cur' =>
        (∃ i', i' < j + 1 + r.length ∧ ReadyAt root cnt' cur' q i' (j + 1 + r.length)) ∧
        StrictOff cnt1 cnt' (keyAt root q))
      (fun cnt1 cur1 hinv1 ⟨⟨i', hi', hr1⟩, _⟩ =>
        g_list rootId h hlist q i' ch cnt1 cur1 hip hch hd' hinv1 hr1 (by omega) (Or.inr (Or.inl (by omega))))
    refine ⟨this.1, this.2.1, ?_, ?_⟩
    · have := this.2.2.1
      simpa [Nat.add_assoc, Nat.add_comm 1] using this
    · exact StrictOff.trans h1.2.2.2.strict this.2.2.2
  | _, _, _, _, _, _, .later (i := j) (c := c) (r := r) hchild hlist, q, i, ch, cnt, cur, hip, hch, hd, hinv, hr, hij, hnf => by
    obtain ⟨hc, hd'⟩ := drop_cons_get hd
    have h1 := g_child rootId h hchild q j i ch cnt cur (by rw [hip]) hch hc hinv hr hij hnf
    have := AfterX.prepend h1 (Q := fun cnt1 cnt' cur' =>
        (∃ i', i' < j + 1 + r.length ∧ ReadyAt root cnt' cur' q i' (j + 1 + r.length)) ∧
        StrictOff cnt1 cnt' (keyAt root q))
      (fun cnt1 cur1 hinv1 ⟨⟨i', hi', hr1⟩, _⟩ =>
        x_list hlist q i' ch cnt1 cur1 hip hch hd' hinv1 hr1 (by omega) (Or.inr (Or.inl (by omega))))
    refine ⟨this.1, this.2.1, ?_, ?_⟩
    · have := this.2.2.1
      simpa [Nat.add_assoc, Nat.add_comm 1] using this
    · exact StrictOff.trans h1.2.2.2.strict this.2.2.2
termination_by structural _ _ _ _ _ _ d => d
/-- off the path: one instance, with the fault below it, of the first-seg loop that is child `m` of the transparent
    loop at `bp` -/
theorem y_one : ∀ {ip : List Nat} {c : Node} {pre : List Emit} {x : Emit} {post : List Emit}, XOne K e ip c pre x post →
    ∀ (q : List Nat) (i j : Nat) (bp : List Nat) (m : Nat) (sub : List Node) (cnt : Counter) (cur : List Nat),
    ip = bp ++ [m] → Anchor root cnt cur q i j → q ++ [j] <+: bp → Off root cnt (q ++ [j]) (bp ++ [m]) →
    chAt root bp = some sub → sub[m]? = some c → c.usage ≠ 2 →
    (c.rep = 0 ∨ cnt.get (keyAt root bp ++ [c.comp]) < c.rep) →
    AfterX K root rootId cnt cur pre x post e (fun cnt' cur' =>
      ReadyAt root cnt' cur' bp m m ∧ AgreeOff cnt cnt' (keyAt root bp ++ [c.comp]) ∧
      cnt'.get (keyAt root bp ++ [c.comp]) = cnt.get (keyAt root bp ++ [c.comp]) + 1)
  | _, _, _, _, _, .loop (lid := lid) (p := p') (u := u') (r := r') (w := w') (first := first) (rest := rest) hseg hm hl,
      q, i, j, bp, m, sub, cnt, cur, hip, ha, hbp, hoff, hsub, hc, hu, hrep => by
    simp only [Node.usage, Node.rep, comp_loop] at hu hrep ⊢
    obtain ⟨ch, l, p, u, r, w, chT, hch, hT, hTT⟩ := ha.tr
    obtain ⟨rel, hrel⟩ := hbp
    subst hrel
    have hsubT : chAt root (q ++ [j]) = some chT := by rw [chAt_snoc hch, hT]
    have hsubL : chAt chT rel = some sub := by
      have := hsub; rw [chAt_append, hsubT] at this; exact this
    obtain ⟨hn, hs⟩ := step_enter rootId h ha.inv ha.rdy ha.lt hch hT hTT hoff hsubL hc hseg hm hu hrep
    have hinv1 := post_enter h ha.inv ha.rdy ha.lt hch hT hTT hoff hsubL hc hseg
    have hsub1 : chAt root (q ++ [j] ++ rel ++ [m]) = some (first :: rest) := by rw [chAt_snoc hsub, hc]
    have hkey : keyAt root (q ++ [j] ++ rel ++ [m]) = keyAt root (q ++ [j] ++ rel) ++ [(lid, 0)] := keyAt_snoc hsub hc
    have hr1 : ReadyAt root (enterCnt cnt (keyAt root (q ++ [j] ++ rel) ++ [(lid, 0)]) first.comp)
        (q ++ [j] ++ rel ++ [m] ++ [0]) (q ++ [j] ++ rel ++ [m]) 0 1 :=
      ready_skip (ready_here _ _ _ _) (by intro hh; omega)
    have hrec := x_list hl (q ++ [j] ++ rel ++ [m]) 0 (first :: rest) _ _ hip hsub1 (by simp) hinv1 hr1 (by omega)
      (Or.inr (Or.inl (by omega)))
    subst hip
    apply AfterX.step hn hs
    refine AfterX.mono hrec ?_
    intro cnt' cur' ⟨⟨i', hi', hra⟩, hso⟩
    rw [hkey] at hso
    refine ⟨ready_up hsub1 hra (by simp; omega), AgreeOff.trans (agreeOff_enter _ _ _) hso.agree, ?_⟩
    rw [hso _ (fun hh => hh.2 rfl), get_enterCnt_self]
termination_by structural _ _ _ _ _ d => d
theorem y_reps : ∀ {ip : List Nat} {c : Node} {k : Nat} {pre : List Emit} {x : Emit} {post : List Emit},
    XReps K e ip c k pre x post →
    ∀ (q : List Nat) (i j : Nat) (bp : List Nat) (m : Nat) (sub : List Node) (cnt : Counter) (cur : List Nat),
    ip = bp ++ [m] → k = 0 → Anchor root cnt cur q i j → q ++ [j] <+: bp → Off root cnt (q ++ [j]) (bp ++ [m]) →
    chAt root bp = some sub → sub[m]? = some c → counted c = true →
    AfterX K root rootId cnt cur pre x post e (fun cnt' cur' =>
      (∃ i', i' ≤ m ∧ ReadyAt root cnt' cur' bp i' (m + 1)) ∧ AgreeOff cnt cnt' (keyAt root bp ++ [c.comp]))
  | _, _, _, _, _, _, .over hu h0 hk hone he, q, i, j, bp, m, sub, cnt, cur, hip, hk0, ha, hbp, hoff, hsub, hc, hcnt => by
    exfalso; omega
  | _, _, _, _, _, _, .inside (c := c) hu hk hone hreps, q, i, j, bp, m, sub, cnt, cur, hip, hk0, ha, hbp, hoff, hsub, hc,
      hcnt => by
    have hz := ha.zero hbp hsub c.comp
    have h1 := y_one hone q i j bp m sub cnt cur hip ha hbp hoff hsub hc hu (by rw [hz]; subst hk0; exact hk)
    have hTs : firstIsLoop sub = true := by
      obtain ⟨sub0, hsub0, hT0, _⟩ := hoff bp m hbp (List.prefix_refl _)
      rw [hsub] at hsub0; simp only [Option.some.injEq] at hsub0; subst hsub0; exact hT0
    have := AfterX.append h1 (Q := fun cnt1 cnt' cur' =>
        (∃ i', i' ≤ m ∧ ReadyAt root cnt' cur' bp i' (m + 1)) ∧ AgreeOff cnt1 cnt' (keyAt root bp ++ [_]))
      (fun cnt1 cur1 hinv1 ⟨hr1, _, hg1⟩ =>
        g_reps rootId h hreps bp m m sub cnt1 cur1 hip hsub hc hcnt hinv1 hr1 (by rw [hg1, hz]; subst hk0; rfl)
          (Or.inr (Or.inr hTs)))
    refine ⟨this.1, this.2.1, this.2.2.1, ?_⟩
    exact AgreeOff.trans h1.2.2.2.1 this.2.2.2
  | _, _, _, _, _, _, .later (c := c) hu hk hone hreps, q, i, j, bp, m, sub, cnt, cur, hip, hk0, ha, hbp, hoff, hsub, hc,
      hcnt => by
    have hz := ha.zero hbp hsub c.comp
    have h1 := o_one rootId h hone q i j bp m sub cnt cur hip ha hbp hoff hsub hc hu (by rw [hz]; subst hk0; exact hk)
    have hTs : firstIsLoop sub = true := by
      obtain ⟨sub0, hsub0, hT0, _⟩ := hoff bp m hbp (List.prefix_refl _)
      rw [hsub] at hsub0; simp only [Option.some.injEq] at hsub0; subst hsub0; exact hT0
    have := AfterX.prepend h1 (Q := fun cnt1 cnt' cur' =>
        (∃ i', i' ≤ m ∧ ReadyAt root cnt' cur' bp i' (m + 1)) ∧ AgreeOff cnt1 cnt' (keyAt root bp ++ [_]))
      (fun cnt1 cur1 hinv1 ⟨hr1, _, hg1⟩ =>
        x_reps hreps bp m m sub cnt1 cur1 hip hsub hc hcnt hinv1 hr1 (by rw [hg1, hz]; subst hk0; rfl)
          (Or.inr (Or.inr hTs)))
    refine ⟨this.1, this.2.1, this.2.2.1, ?_⟩
    exact AgreeOff.trans h1.2.2.2.1 this.2.2.2
termination_by structural _ _ _ _ _ _ d => d
theorem y_child : ∀ {ip : List Nat} {c : Node} {pre : List Emit} {x : Emit} {post : List Emit}, XChild K e ip c pre x post →
    ∀ (q : List Nat) (i j : Nat) (bp : List Nat) (m : Nat) (sub : List Node) (cnt : Counter) (cur : List Nat),
    ip = bp ++ [m] → Anchor root cnt cur q i j → q ++ [j] <+: bp → Off root cnt (q ++ [j]) (bp ++ [m]) →
    chAt root bp = some sub → sub[m]? = some c →
    AfterX K root rootId cnt cur pre x post e (fun cnt' cur' =>
      (∃ i', i' ≤ m ∧ ReadyAt root cnt' cur' bp i' (m + 1)) ∧ AgreeOff cnt cnt' (keyAt root bp ++ [c.comp]))
  | _, _, _, _, _, .counted hcnt hreps, q, i, j, bp, m, sub, cnt, cur, hip, ha, hbp, hoff, hsub, hc => by
    exact y_reps hreps q i j bp m sub cnt cur hip rfl ha hbp hoff hsub hc hcnt
  | _, _, _, _, _, .wrapper (lid := l) (p := p) (u := u) (r := r) (w := w) (first := first) (rest := rest) hfs hu hl,
      q, i, j, bp, m, sub, cnt, cur, hip, ha, hbp, hoff, hsub, hc => by
    have hTT : firstIsLoop (first :: rest) = true := by simp [firstIsLoop, hfs]
    have hsubT : chAt root (bp ++ [m]) = some (first :: rest) := by rw [chAt_snoc hsub, hc]
    have hkeyT : keyAt root (bp ++ [m]) = keyAt root bp ++ [(Node.loop l p u r w (first :: rest)).comp] := keyAt_snoc hsub hc
    have haft := y_list hl q i j (bp ++ [m]) (first :: rest) cnt cur hip ha
      (List.IsPrefix.trans hbp (List.prefix_append _ _)) (off_descend hoff hsubT hTT) hsubT (by simp)
    refine AfterX.mono haft ?_
    intro cnt' cur' ⟨⟨i', hi', hra⟩, hso⟩
    rw [hkeyT] at hso
    exact ⟨⟨m, Nat.le_refl _, ready_skip (ready_up hsubT hra (by simp)) (by intro hh; omega)⟩, hso.agree⟩
termination_by structural _ _ _ _ _ d => d
theorem y_list : ∀ {lip : List Nat} {m : Nat} {rest : List Node} {pre : List Emit} {x : Emit} {post : List Emit},
    XList K e lip m rest pre x post →
    ∀ (q : List Nat) (i j : Nat) (bp : List Nat) (sub : List Node) (cnt : Counter) (cur : List Nat),
    lip = bp → Anchor root cnt cur q i j → q ++ [j] <+: bp → Off root cnt (q ++ [j]) (bp ++ [m]) →
    chAt root bp = some sub → sub.drop m = rest →
    AfterX K root rootId cnt cur pre x post e (fun cnt' cur' =>
      (∃ i', i' < m + rest.length ∧ ReadyAt root cnt' cur' bp i' (m + rest.length)) ∧
      StrictOff cnt cnt' (keyAt root bp))
  | _, _, _, _, _, _, .here (i := m) (c := c) (r := r) hchild hlist, q, i, j, bp, sub, cnt, cur, hip, ha, hbp, hoff, hsub,
      hd => by
    obtain ⟨hc, hd'⟩ := drop_cons_get hd
    have h1 := y_child hchild q i j bp m sub cnt cur (by rw [hip]) ha hbp hoff hsub hc
    have hTs : firstIsLoop sub = true := by
      obtain ⟨sub0, hsub0, hT0, _⟩ := hoff bp m hbp (List.prefix_refl _)
      rw [hsub] at hsub0; simp only [Option.some.injEq] at hsub0; subst hsub0; exact hT0
    have := AfterX.append h1 (Q := fun cnt1 cnt' cur' =>
        (∃ i', i' < m + 1 + r.length ∧ ReadyAt root cnt' cur' bp i' (m + 1 + r.length)) ∧
        StrictOff cnt1 cnt' (keyAt root bp))
      (fun cnt1 cur1 hinv1 ⟨⟨i', hi', hr1⟩, _⟩ =>
        g_list rootId h hlist bp i' sub cnt1 cur1 hip hsub hd' hinv1 hr1 (by omega) (Or.inr (Or.inr hTs)))
    refine ⟨this.1, this.2.1, ?_, ?_⟩
    · have := this.2.2.1
      simpa [Nat.add_assoc, Nat.add_comm 1] using this
    · exact StrictOff.trans h1.2.2.2.strict this.2.2.2
  | _, _, _, _, _, _, .later (i := m) (c := c) (r := r) (o1 := o1) hchild hlist, q, i, j, bp, sub, cnt, cur, hip, ha, hbp,
      hoff, hsub, hd => by
    obtain ⟨hc, hd'⟩ := drop_cons_get hd
    have h1 := o_child rootId h hchild q i j bp m sub cnt cur (by rw [hip]) ha hbp hoff hsub hc
    have hlen : m + (c :: r).length = m + 1 + r.length := by simp; omega
    rcases h1 with ⟨hnil, hsat⟩ | haft
    · -- nothing emitted for this child: still off the path
      have hoff1 : Off root cnt (q ++ [j]) (bp ++ [m + 1]) := off_advance hoff hbp (by
        intro sub' c' hsub' hc'
        rw [hsub] at hsub'; simp only [Option.some.injEq] at hsub'; subst hsub'
        rw [hc] at hc'; simp only [Option.some.injEq] at hc'; subst hc'
        exact hsat)
      have h2 := y_list hlist q i j bp sub cnt cur hip ha hbp hoff1 hsub hd'
      subst hnil
      rw [hlen]; simpa using h2
    · -- the child was entered: the rest of the list is on the path
      have hTs : firstIsLoop sub = true := by
        obtain ⟨sub0, hsub0, hT0, _⟩ := hoff bp m hbp (List.prefix_refl _)
        rw [hsub] at hsub0; simp only [Option.some.injEq] at hsub0; subst hsub0; exact hT0
      have := AfterX.prepend haft (Q := fun cnt1 cnt' cur' =>
          (∃ i', i' < m + 1 + r.length ∧ ReadyAt root cnt' cur' bp i' (m + 1 + r.length)) ∧
          StrictOff cnt1 cnt' (keyAt root bp))
        (fun cnt1 cur1 hinv1 ⟨⟨i', hi', hr1⟩, _⟩ =>
          x_list hlist bp i' sub cnt1 cur1 hip hsub hd' hinv1 hr1 (by omega) (Or.inr (Or.inr hTs)))
      refine ⟨this.1, this.2.1, ?_, ?_⟩
      · have := this.2.2.1
        simpa [Nat.add_assoc, Nat.add_comm 1] using this
      · exact StrictOff.trans haft.2.2.2.strict this.2.2.2
termination_by structural _ _ _ _ _ _ d => d
end

end

/-- the state in which `x12n_document` starts the walk of a group: ISA and GS pinned with
    `forceWalkCounterToLoopStart` on an empty counter, current node = the GS node `[a, g, 0]` -/
theorem envelope_start {K : Consts} {root : List Node} (h : MapOK K root)
    {a isaId isaPos isaU isaRep : Nat} {isaW : Bool} {isaSeg : Node} {isaRest : List Node}
    (hroot : root[a]? = some (.loop isaId isaPos isaU isaRep isaW (isaSeg :: isaRest))) (hisa : isaSeg.isSeg = true)
    {g gsId gsPos gsU gsRep : Nat} {gsW : Bool} {gsSeg : Node} {gsRest : List Node}
    (hgs : (isaSeg :: isaRest)[g]? = some (.loop gsId gsPos gsU gsRep gsW (gsSeg :: gsRest))) (hgseg : gsSeg.isSeg = true)
    (hopt0 : ∀ (j : Nat) (c : Node), j < a → root[j]? = some c → optional c = true)
    (hopt1 : ∀ (j : Nat) (c : Node), 0 < j → j < g → (isaSeg :: isaRest)[j]? = some c → optional c = true) :
    chAt root [a] = some (isaSeg :: isaRest) ∧ chAt root ([a] ++ [g]) = some (gsSeg :: gsRest) ∧
    Inv root (enterCnt (enterCnt [] [(isaId, 0)] isaSeg.comp) ([(isaId, 0)] ++ [(gsId, 0)]) gsSeg.comp) ([a] ++ [g] ++ [0]) ∧
    ReadyAt root (enterCnt (enterCnt [] [(isaId, 0)] isaSeg.comp) ([(isaId, 0)] ++ [(gsId, 0)]) gsSeg.comp)
      ([a] ++ [g] ++ [0]) ([a] ++ [g]) 0 1 := by
  have hinv0 := init_inv h hroot hisa hopt0
  have hch0 : chAt root [] = some root := rfl
  have hsubI : chAt root [a] = some (isaSeg :: isaRest) := by
    have := chAt_snoc hch0 a; simp only [List.nil_append] at this; rw [this, hroot]
  have hkeyI : keyAt root [a] = [(isaId, 0)] := by
    have := keyAt_snoc hch0 hroot; simpa [keyAt, Node.comp] using this
  have hr0 : ReadyAt root (enterCnt [] [(isaId, 0)] isaSeg.comp) ([a] ++ [0]) [a] 0 g := by
    refine ⟨List.prefix_refl _, Nat.zero_le _, ?_, ?_⟩
    · intro ch hch j' c hj' hj'g hc
      rw [hsubI] at hch; simp only [Option.some.injEq] at hch; subst hch
      exact satisfied_of_optional c _ (hopt1 j' c hj' hj'g hc)
    · intro p i' hp1 hp2
      have l1 := List.IsPrefix.length_le hp1
      have l2 := List.IsPrefix.length_le hp2
      simp at l1 l2; omega
  have hinv1 := post_loop h hinv0 hr0.on hsubI hgs hgseg
  rw [hkeyI] at hinv1
  have hsubG : chAt root ([a] ++ [g]) = some (gsSeg :: gsRest) := by rw [chAt_snoc hsubI, hgs]
  exact ⟨hsubI, hsubG, hinv1, ready_skip (ready_here _ _ _ _) (by intro hh; omega)⟩

/-- **run-level statement for "one instance too many"** (whole envelope skeleton, as `walk_accepts_generated`): the
    rest of the group after GS carries the fault (`pre ++ x :: post`), the rest of the interchange (`out2`) and what
    follows at top level (`out3`) are conformant -/
theorem over_limit_run (K : Consts) (root : List Node) (rootId : Nat) (e : WErr)
    (hwf : WFMap root = true) (hun : Unambiguous K root = true)
    (hsf : e.1 = ErrKind.loopMaxCount → sfList K root = true)
    {a isaId isaPos isaU isaRep : Nat} {isaW : Bool} {isaSeg : Node} {isaRest : List Node}
    (hroot : root[a]? = some (.loop isaId isaPos isaU isaRep isaW (isaSeg :: isaRest))) (hisa : isaSeg.isSeg = true)
    {g gsId gsPos gsU gsRep : Nat} {gsW : Bool} {gsSeg : Node} {gsRest : List Node}
    (hgs : (isaSeg :: isaRest)[g]? = some (.loop gsId gsPos gsU gsRep gsW (gsSeg :: gsRest))) (hgseg : gsSeg.isSeg = true)
    (hopt0 : ∀ (j : Nat) (c : Node), j < a → root[j]? = some c → optional c = true)
    (hopt1 : ∀ (j : Nat) (c : Node), 0 < j → j < g → (isaSeg :: isaRest)[j]? = some c → optional c = true)
    {pre : List Emit} {x : Emit} {post out2 out3 : List Emit}
    (h1 : XList K e [a, g] 1 gsRest pre x post)
    (h2 : GenList K [a] (g + 1) ((isaSeg :: isaRest).drop (g + 1)) out2)
    (h3 : GenList K [] (a + 1) (root.drop (a + 1)) out3) :
    RunErrAt K root rootId
      (forceLoopStart (forceLoopStart [] [(isaId, 0)] [(isaId, 0), isaSeg.comp])
        [(isaId, 0), (gsId, 0)] [(isaId, 0), (gsId, 0), gsSeg.comp])
      [a, g, 0] pre x (post ++ out2 ++ out3) e := by
  have h : MapOK K root := ⟨hwf, hun⟩
  obtain ⟨hsubI, hsubG, hinv1, hr1⟩ := envelope_start h hroot hisa hgs hgseg hopt0 hopt1
  have hch0 : chAt root [] = some root := rfl
  have e1 := x_list rootId h hsf h1 ([a] ++ [g]) 0 (gsSeg :: gsRest) _ _ rfl hsubG (by simp) hinv1 hr1 (by omega)
    (Or.inr (Or.inl (by omega)))
  have e12 := AfterX.append e1 (Q := fun _ cnt' cur' => ∃ i', i' < g + 1 + ((isaSeg :: isaRest).drop (g + 1)).length ∧
      ReadyAt root cnt' cur' [a] i' (g + 1 + ((isaSeg :: isaRest).drop (g + 1)).length))
    (fun cnt1 cur1 hinv' ⟨⟨i', hi', hra⟩, _⟩ => by
      have hup : ReadyAt root cnt1 cur1 [a] g g := ready_up hsubG hra (by simp; omega)
      have hr2 : ReadyAt root cnt1 cur1 [a] g (g + 1) := ready_skip hup (by intro hh; omega)
      have e2 := g_list rootId h h2 [a] g (isaSeg :: isaRest) cnt1 cur1 rfl hsubI rfl hinv' hr2 (by omega)
        (Or.inr (Or.inl (by omega)))
      exact After.mono e2 (fun _ _ hh => hh.1))
  have e123 := AfterX.append e12 (Q := fun _ _ _ => True)
    (fun cnt2 cur2 hinv' ⟨i', hi', hra⟩ => by
      have hlen : (isaSeg :: isaRest).length ≤ g + 1 + ((isaSeg :: isaRest).drop (g + 1)).length := by
        simp; omega
      have hup : ReadyAt root cnt2 cur2 [] a a := ready_up (q := []) hsubI hra hlen
      have hr3 : ReadyAt root cnt2 cur2 [] a (a + 1) := ready_skip hup (by intro hh; omega)
      have e3 := g_list rootId h h3 [] a root cnt2 cur2 rfl hch0 rfl hinv' hr3 (by omega) (Or.inl rfl)
      exact After.mono e3 (fun _ _ _ => trivial))
  exact e123.1

end Pyx12Verif.WalkerGen
