/-
C10 bridge, editing-model side: the invariant `AllSorted` (the live children of EVERY loop node are in map order) and its
preservation by every call of the C10 operation set (`stepTree`, `step`, `run`).

`posSorted (cleanup cs)` is the hypothesis of `insert_keeps_sorted` / `add_segment_places` (Props/C10.lean); `AllSorted` is
that hypothesis for every loop node of a tree at once.
-/
import Pyx12Verif.Props.C10

namespace Pyx12Verif.DataTree

mutual
/-- the live children of every loop node of the tree are in map order -/
def AllSorted : DNode → Prop
  | .seg _ _ => True
  | .dead => True
  | .loop _ _ cs => posSorted (cleanup cs) ∧ AllSortedL cs
def AllSortedL : List DNode → Prop
  | [] => True
  | c :: r => AllSorted c ∧ AllSortedL r
end

/-- every tree of the forest -/
def ForestSorted (σ : Forest) : Prop := ∀ t ∈ σ, AllSorted t

theorem allSortedL_iff (cs : List DNode) : AllSortedL cs ↔ ∀ c ∈ cs, AllSorted c := by
  induction cs with
  | nil => simp [AllSortedL]
  | cons c r ih => simp [AllSortedL, ih]

theorem allSorted_loop (h : Hdr) (mk : List MNode) (cs : List DNode) :
    AllSorted (.loop h mk cs) ↔ posSorted (cleanup cs) ∧ ∀ c ∈ cs, AllSorted c := by
  simp [AllSorted, allSortedL_iff]

theorem allSorted_dead : AllSorted .dead := by simp [AllSorted]
theorem allSorted_seg (d : SegDef) (s : Seg) : AllSorted (.seg d s) := by simp [AllSorted]

/-! ### positions of the live children -/

/-- positions of the live children, in order -/
def posL (cs : List DNode) : List Nat := (cleanup cs).map nodePos

theorem posSorted_iff (cs : List DNode) : posSorted (cleanup cs) ↔ (posL cs).Pairwise (· ≤ ·) := by
  simp [posSorted, posL, List.pairwise_map]

theorem posL_append (a b : List DNode) : posL (a ++ b) = posL a ++ posL b := by
  simp [posL, cleanup]

theorem posL_cons (x : DNode) (r : List DNode) :
    posL (x :: r) = if isDead x = true then posL r else nodePos x :: posL r := by
  by_cases h : isDead x = true <;> simp [posL, cleanup, isLive, h]

theorem posL_single_sub (x y : DNode)
    (h : isDead y = true ∨ (isDead y = isDead x ∧ nodePos y = nodePos x)) : (posL [y]).Sublist (posL [x]) := by
  rcases h with h | ⟨h1, h2⟩
  · rw [posL_cons, if_pos h]
    exact List.nil_sublist _
  · rw [posL_cons, posL_cons, h1, h2]
    exact List.Sublist.refl _

theorem cleanup_cleanup (cs : List DNode) : cleanup (cleanup cs) = cleanup cs := by
  simp [cleanup]

theorem cleanup_live (cs : List DNode) (h : ∀ c ∈ cs, isLive c = true) : cleanup cs = cs := by
  simp only [cleanup]
  exact List.filter_eq_self.mpr h

theorem mem_cleanup {c : DNode} {cs : List DNode} (h : c ∈ cleanup cs) : c ∈ cs ∧ isLive c = true := by
  simpa [cleanup] using h

/-! ### subtrees and modification at an address -/

theorem getAt_sorted : ∀ (a : List Nat) (t n : DNode), AllSorted t → getAt a t = some n → AllSorted n
  | [], t, n, ht, h => by simp only [getAt, Option.some.injEq] at h; rw [← h]; exact ht
  | i :: r, .loop hd mk cs, n, ht, h => by
    simp only [getAt] at h
    split at h
    · rename_i c hc
      exact getAt_sorted r c n (((allSorted_loop hd mk cs).1 ht).2 c (List.mem_of_getElem? hc)) h
    · cases h
  | _ :: _, .seg _ _, _, _, h => by simp [getAt] at h
  | _ :: _, .dead, _, _, h => by simp [getAt] at h

theorem getAt_loop_sorted {a : List Nat} {t : DNode} {hd : Hdr} {mk : List MNode} {cs : List DNode} (ht : AllSorted t)
    (h : getAt a t = some (.loop hd mk cs)) : posSorted (cleanup cs) ∧ ∀ c ∈ cs, AllSorted c :=
  (allSorted_loop hd mk cs).1 (getAt_sorted a t _ ht h)

/-- what the functions applied at an address do to the node they are applied to: it becomes a tombstone, or keeps its
    liveness and position -/
def KeepsPlace (f : DNode → DNode) : Prop :=
  ∀ n, isDead (f n) = true ∨ (isDead (f n) = isDead n ∧ nodePos (f n) = nodePos n)

theorem modifyAt_place (f : DNode → DNode) (hf : KeepsPlace f) : ∀ (a : List Nat) (c : DNode),
    isDead (modifyAt f a c) = true ∨ (isDead (modifyAt f a c) = isDead c ∧ nodePos (modifyAt f a c) = nodePos c)
  | [], c => by simpa [modifyAt] using hf c
  | _ :: _, .loop _ _ _ => by simp [modifyAt, isDead, nodePos]
  | _ :: _, .seg _ _ => by simp [modifyAt]
  | _ :: _, .dead => by simp [modifyAt]

theorem modifyAt_sorted (f : DNode → DNode) (hs : ∀ n, AllSorted n → AllSorted (f n)) (hf : KeepsPlace f) :
    ∀ (a : List Nat) (t : DNode), AllSorted t → AllSorted (modifyAt f a t)
  | [], t, ht => by simpa [modifyAt] using hs t ht
  | _ :: _, .seg d s, _ => by simp [modifyAt, AllSorted]
  | _ :: _, .dead, _ => by simp [modifyAt, AllSorted]
  | i :: r, .loop hd mk cs, ht => by
    simp only [modifyAt]
    obtain ⟨hp, hall⟩ := (allSorted_loop hd mk cs).1 ht
    rw [allSorted_loop]
    cases hc : cs[i]? with
    | none =>
      have : cs.modify i (modifyAt f r) = cs := by
        apply List.ext_getElem?
        intro j
        rw [List.getElem?_modify]
        by_cases hij : i = j
        · subst hij; simp [hc]
        · simp [hij]
      rw [this]; exact ⟨hp, hall⟩
    | some c =>
      obtain ⟨h1, h2⟩ := modify_split cs i (modifyAt f r) c hc
      have hcm : c ∈ cs := List.mem_of_getElem? hc
      have hgc : AllSorted (modifyAt f r c) := modifyAt_sorted f hs hf r c (hall c hcm)
      refine ⟨?_, ?_⟩
      · rw [posSorted_iff] at hp ⊢
        rw [h2]
        rw [h1] at hp
        have e1 : posL (cs.take i ++ modifyAt f r c :: cs.drop (i + 1)) =
            posL (cs.take i) ++ posL [modifyAt f r c] ++ posL (cs.drop (i + 1)) := by
          rw [show cs.take i ++ modifyAt f r c :: cs.drop (i + 1) = cs.take i ++ [modifyAt f r c] ++ cs.drop (i + 1) by simp,
            posL_append, posL_append]
        have e2 : posL (cs.take i ++ c :: cs.drop (i + 1)) = posL (cs.take i) ++ posL [c] ++ posL (cs.drop (i + 1)) := by
          rw [show cs.take i ++ c :: cs.drop (i + 1) = cs.take i ++ [c] ++ cs.drop (i + 1) by simp, posL_append, posL_append]
        rw [e1]
        rw [e2] at hp
        refine List.Pairwise.sublist ?_ hp
        exact List.Sublist.append (List.Sublist.append (List.Sublist.refl _) (posL_single_sub c _ (modifyAt_place f hf r c)))
          (List.Sublist.refl _)
      · intro x hx
        rw [h2] at hx
        simp only [List.mem_append, List.mem_cons] at hx
        rcases hx with hx | hx | hx
        · exact hall x (List.mem_of_mem_take hx)
        · rw [hx]; exact hgc
        · exact hall x (List.mem_of_mem_drop hx)

/-! ### the functions applied at an address -/

theorem putSeg_place (s2 : Seg) : KeepsPlace (putSeg s2) := by
  intro n; cases n <;> simp [putSeg, isDead, nodePos]

theorem putSeg_sorted (s2 : Seg) (n : DNode) (h : AllSorted n) : AllSorted (putSeg s2 n) := by
  cases n <;> simp_all [putSeg, AllSorted]

theorem kill_place : KeepsPlace kill := fun _ => Or.inl rfl

theorem withKids_place (cs2 : List DNode) : KeepsPlace (withKids cs2) := by
  intro n; cases n <;> simp [withKids, isDead, nodePos]

theorem withKids_sorted (cs2 : List DNode) (h1 : posSorted (cleanup cs2)) (h2 : ∀ c ∈ cs2, AllSorted c) (n : DNode)
    (_ : AllSorted n) : AllSorted (withKids cs2 n) := by
  cases n with
  | seg d s => simp [withKids, AllSorted]
  | dead => simp [withKids, AllSorted]
  | loop hd mk cs => simp only [withKids]; exact (allSorted_loop hd mk cs2).2 ⟨h1, h2⟩

/-- replacing the children of one loop node by a sorted list of sorted nodes -/
theorem withKids_at_sorted (t : DNode) (a : List Nat) (cs2 : List DNode) (ht : AllSorted t)
    (h1 : posSorted (cleanup cs2)) (h2 : ∀ c ∈ cs2, AllSorted c) : AllSorted (modifyAt (withKids cs2) a t) :=
  modifyAt_sorted _ (withKids_sorted cs2 h1 h2) (withKids_place cs2) a t ht

/-! ### insertion, deletion -/

theorem insertChild_mem (n : DNode) (cs : List DNode) : ∀ x ∈ insertChild n cs, x = n ∨ x ∈ cleanup cs := by
  intro x hx
  simp only [insertChild, insertAt, List.mem_append, List.mem_cons] at hx
  rcases hx with hx | hx | hx
  · exact Or.inr (List.mem_of_mem_take hx)
  · exact Or.inl hx
  · exact Or.inr (List.mem_of_mem_drop hx)

theorem insertChild_ok (n : DNode) (cs : List DNode) (hn : isLive n = true) (hns : AllSorted n)
    (hp : posSorted (cleanup cs)) (hall : ∀ c ∈ cs, AllSorted c) :
    posSorted (cleanup (insertChild n cs)) ∧ ∀ c ∈ insertChild n cs, AllSorted c := by
  have hlive : ∀ c ∈ insertChild n cs, isLive c = true := by
    intro c hc
    rcases insertChild_mem n cs c hc with rfl | h
    · exact hn
    · exact (mem_cleanup h).2
  refine ⟨by rw [cleanup_live _ hlive]; exact insert_keeps_sorted n cs hp, ?_⟩
  intro c hc
  rcases insertChild_mem n cs c hc with rfl | h
  · exact hns
  · exact hall c (mem_cleanup h).1

theorem posSorted_sublist {a b : List DNode} (h : a.Sublist b) (hb : posSorted b) : posSorted a :=
  List.Pairwise.sublist h hb

theorem delFirstEq_sub (sg : Seg) : ∀ (cs cs2 : List DNode), delFirstEq sg cs = some cs2 → cs2.Sublist cs := by
  intro cs cs2 h
  obtain ⟨m1, d, s0, m2, rfl, rfl, _⟩ := delFirstEq_spec sg cs cs2 h
  exact List.Sublist.append (List.Sublist.refl _) (List.sublist_cons_self _ _)

theorem delAfterFirst_sub (sg : Seg) (cs cs2 : List DNode) (h : delAfterFirst sg cs = some cs2) : cs2.Sublist cs := by
  cases cs with
  | nil => simp [delAfterFirst] at h
  | cons c r =>
    simp only [delAfterFirst] at h
    split at h
    · cases h
    · rename_i r2 hr
      simp only [Option.some.injEq] at h
      rw [← h]
      exact List.Sublist.cons_cons _ (delFirstEq_sub sg r r2 hr)

theorem cleanup_sublist {a b : List DNode} (h : a.Sublist b) : (cleanup a).Sublist (cleanup b) :=
  List.Sublist.filter _ h

/-! ### copy -/

theorem copy_place (n : DNode) : isDead (copyNode n) = isDead n ∧ nodePos (copyNode n) = nodePos n := by
  cases n <;> simp [copyNode, isDead, nodePos]

theorem copyNode_sorted (n : DNode) : AllSorted n → AllSorted (copyNode n) := by
  refine DNode.rec (motive_1 := fun n => AllSorted n → AllSorted (copyNode n))
    (motive_2 := fun cs => (∀ c ∈ cs, AllSorted c) → (∀ c ∈ copyKids cs, AllSorted c) ∧ posL (copyKids cs) = posL cs)
    ?_ ?_ ?_ ?_ ?_ n
  · intro d s _; simp [copyNode, AllSorted]
  · intro hd mk cs ih h
    obtain ⟨hp, hall⟩ := (allSorted_loop hd mk cs).1 h
    obtain ⟨h1, h2⟩ := ih hall
    simp only [copyNode]
    rw [allSorted_loop]
    refine ⟨?_, h1⟩
    rw [posSorted_iff, h2, ← posSorted_iff]; exact hp
  · intro _; simp [copyNode, AllSorted]
  · intro _; simp [copyKids]
  · intro c r ihc ihr hall
    obtain ⟨h1, h2⟩ := ihr (fun x hx => hall x (List.mem_cons_of_mem _ hx))
    by_cases hd : isDead c = true
    · simp only [copyKids, hd, if_true]
      exact ⟨h1, by rw [h2, posL_cons, if_pos hd]⟩
    · simp only [copyKids, hd]
      refine ⟨?_, ?_⟩
      · intro x hx
        simp only [Bool.false_eq_true, if_false, List.mem_cons] at hx
        rcases hx with hx | hx
        · rw [hx]; exact ihc (hall c (by simp))
        · exact h1 x hx
      · simp only [Bool.false_eq_true, if_false]
        rw [posL_cons, posL_cons, (copy_place c).1, (copy_place c).2, h2]

/-! ### every call keeps the invariant -/

theorem setValue_sorted (t : DNode) (a : List Nat) (ps v : Str) (t' : DNode) (ht : AllSorted t)
    (h : setValueAt t a ps v = .ok t') : AllSorted t' := by
  obtain ⟨sa, rd, d, s, s2, _, _, _, hr, _⟩ := set_value_serialisation t a ps v t' h
  rw [hr]
  exact modifyAt_sorted _ (putSeg_sorted s2) (putSeg_place s2) sa t ht

theorem addSegment_sorted (t : DNode) (a : List Nat) (s : Str) (t' : DNode) (na : List Nat) (ht : AllSorted t)
    (h : addSegmentAt t a s = .ok (t', na)) : AllSorted t' := by
  simp only [addSegmentAt] at h
  split at h
  · simp at h
  · rename_i hd mk cs hp
    have hg := loopParts_some _ _ _ _ hp
    obtain ⟨hps, hall⟩ := getAt_loop_sorted ht hg
    split at h
    · simp at h
    · rename_i sg hsg
      split at h
      · simp at h
      · rename_i d hd'
        simp only [Except.ok.injEq, Prod.mk.injEq] at h
        rw [← h.1]
        obtain ⟨k1, k2⟩ := insertChild_ok (.seg d sg) cs (by simp [isLive, isDead]) (allSorted_seg d sg) hps hall
        exact withKids_at_sorted t a _ ht k1 k2

theorem newLoopKids_shape (h2 : Hdr) (kids : List MNode) (sg : Seg) (ks : List DNode)
    (h : newLoopKids h2 kids sg = .ok ks) : ∃ d, ks = [.seg d sg] := by
  simp only [newLoopKids] at h
  split at h
  · simp at h
  · rename_i d _
    split at h
    · simp only [Except.ok.injEq] at h; exact ⟨d, h.symm⟩
    · simp at h

theorem addLoop_sorted (t : DNode) (a : List Nat) (s : Str) (ht : AllSorted t) : AllSorted (addLoopAt t a s).tree := by
  simp only [addLoopAt]
  split
  · exact ht
  · rename_i hd mk cs hp
    have hg := loopParts_some _ _ _ _ hp
    obtain ⟨hps, hall⟩ := getAt_loop_sorted ht hg
    split
    · exact ht
    · rename_i sg hsg
      split
      · exact ht
      · exact ht
      · rename_i h2 kids hcl
        split
        · rename_i e he
          have hn : AllSorted (.loop h2 kids []) := (allSorted_loop _ _ _).2 ⟨by simp [cleanup, posSorted], by simp⟩
          obtain ⟨k1, k2⟩ := insertChild_ok (.loop h2 kids []) cs (by simp [isLive, isDead]) hn hps hall
          exact withKids_at_sorted t a _ ht k1 k2
        · rename_i ks hks
          obtain ⟨d, rfl⟩ := newLoopKids_shape h2 kids sg ks hks
          have hn : AllSorted (.loop h2 kids [.seg d sg]) :=
            (allSorted_loop _ _ _).2 ⟨by simp [cleanup, posSorted, isLive, isDead],
              by intro c hc; simp only [List.mem_singleton] at hc; rw [hc]; exact allSorted_seg d sg⟩
          obtain ⟨k1, k2⟩ := insertChild_ok (.loop h2 kids [.seg d sg]) cs (by simp [isLive, isDead]) hn hps hall
          exact withKids_at_sorted t a _ ht k1 k2

theorem addNode_sorted (t : DNode) (a : List Nat) (n t' : DNode) (ht : AllSorted t) (hn : AllSorted n)
    (h : addNodeAt t a n = .ok t') : AllSorted t' := by
  simp only [addNodeAt] at h
  split at h
  · simp at h
  · rename_i hd mk cs hp
    have hg := loopParts_some _ _ _ _ hp
    obtain ⟨hps, hall⟩ := getAt_loop_sorted ht hg
    split at h
    · simp at h
    · rename_i k hk
      have hlive : isLive n = true := by
        cases n <;> simp_all [nodeParentKey, isLive, isDead]
      split at h
      · simp only [Except.ok.injEq] at h
        rw [← h]
        obtain ⟨k1, k2⟩ := insertChild_ok n cs hlive hn hps hall
        exact withKids_at_sorted t a _ ht k1 k2
      · simp at h

theorem deleteSegment_sorted (t : DNode) (a : List Nat) (s : Str) (b : Bool) (t' : DNode) (ht : AllSorted t)
    (h : deleteSegmentAt t a s = .ok (b, t')) : AllSorted t' := by
  simp only [deleteSegmentAt] at h
  split at h
  · simp at h
  · rename_i hd mk cs hp
    have hg := loopParts_some _ _ _ _ hp
    obtain ⟨hps, hall⟩ := getAt_loop_sorted ht hg
    split at h
    · simp at h
    · rename_i sg hsg
      split at h
      · simp only [Except.ok.injEq, Prod.mk.injEq] at h; rw [← h.2]; exact ht
      · split at h
        · simp only [Except.ok.injEq, Prod.mk.injEq] at h
          rw [← h.2]
          refine withKids_at_sorted t a _ ht (by rw [cleanup_cleanup]; exact hps) ?_
          intro c hc; exact hall c (mem_cleanup hc).1
        · rename_i cs2 hdel
          simp only [Except.ok.injEq, Prod.mk.injEq] at h
          rw [← h.2]
          have hsub := delAfterFirst_sub sg _ _ hdel
          refine withKids_at_sorted t a _ ht ?_ ?_
          · have := cleanup_sublist hsub
            rw [cleanup_cleanup] at this
            exact posSorted_sublist this hps
          · intro c hc; exact hall c (mem_cleanup (hsub.subset hc)).1

theorem deleteNode_sorted (t : DNode) (a : List Nat) (ps : Str) (b : Bool) (t' : DNode) (ht : AllSorted t)
    (h : deleteNodeAt t a ps = .ok (b, t')) : AllSorted t' := by
  rcases delete_node_result t a ps b t' h with ⟨_, h2, _⟩ | ⟨_, x, r, _, h2⟩
  · rw [h2]; exact ht
  · rw [h2]
    exact modifyAt_sorted _ (fun _ _ => allSorted_dead) kill_place x t ht

/-- **every call on one tree keeps every loop node's children in map order** -/
theorem stepTree_sorted (t : DNode) (op : Op) (ht : AllSorted t) : AllSorted (stepTree t op).2 := by
  cases op with
  | getValue r a p => exact ht
  | setValue r a p v =>
    simp only [stepTree]
    cases h : setValueAt t a p v with
    | error e => exact ht
    | ok t2 => exact setValue_sorted t a p v t2 ht h
  | existsQ r a p => exact ht
  | count r a p => exact ht
  | first r a p => exact ht
  | select r a p => exact ht
  | addSegment r a s =>
    simp only [stepTree]
    cases h : addSegmentAt t a s with
    | error e => exact ht
    | ok x => obtain ⟨t2, na⟩ := x; exact addSegment_sorted t a s t2 na ht h
  | addLoop r a s => simp only [stepTree]; exact addLoop_sorted t a s ht
  | addNode r a j => exact ht
  | deleteSegment r a s =>
    simp only [stepTree]
    cases h : deleteSegmentAt t a s with
    | error e => exact ht
    | ok x => obtain ⟨b, t2⟩ := x; exact deleteSegment_sorted t a s b t2 ht h
  | deleteNode r a p =>
    simp only [stepTree]
    cases h : deleteNodeAt t a p with
    | error e => exact ht
    | ok x => obtain ⟨b, t2⟩ := x; exact deleteNode_sorted t a p b t2 ht h
  | copy r a => exact ht

theorem forestSorted_set {σ : Forest} {i : Nat} {t : DNode} (h : ForestSorted σ) (ht : AllSorted t) :
    ForestSorted (σ.set i t) := by
  intro x hx
  rcases List.mem_or_eq_of_mem_set hx with hx | hx
  · exact h x hx
  · rw [hx]; exact ht

/-- **every call of the C10 operation set keeps the invariant, on the whole forest** -/
theorem step_tree_case (σ : Forest) (op : Op) (h : ForestSorted σ)
    (hstep : step σ op = (match σ[opRoot op]? with
       | none => ((Res.err Err.attr, σ) : Res × Forest)
       | some t => ((stepTree t op).1, σ.set (opRoot op) (stepTree t op).2))) : ForestSorted (step σ op).2 := by
  rw [hstep]
  cases hr : σ[opRoot op]? with
  | none => exact h
  | some t => exact forestSorted_set h (stepTree_sorted t op (h t (List.mem_of_getElem? hr)))

theorem step_sorted (σ : Forest) (op : Op) (h : ForestSorted σ) : ForestSorted (step σ op).2 := by
  cases op with
  | copy r a =>
    cases hr : σ[r]? with
    | none => simp only [step, hr]; exact h
    | some t =>
      cases hn : getAt a t with
      | none => simp only [step, hr, hn]; exact h
      | some n =>
        simp only [step, hr, hn]
        intro x hx
        simp only [List.mem_append, List.mem_singleton] at hx
        rcases hx with hx | hx
        · exact h x hx
        · rw [hx]
          exact copyNode_sorted n (getAt_sorted a t n (h t (List.mem_of_getElem? hr)) hn)
  | addNode r a j =>
    by_cases hrj : r = j
    · simp only [step, hrj, if_true]; exact h
    · cases hr : σ[r]? with
      | none => simp only [step, hrj, if_false, hr]; exact h
      | some t =>
        cases hj : σ[j]? with
        | none => simp only [step, hrj, if_false, hr, hj]; exact h
        | some n =>
          cases ha : addNodeAt t a n with
          | error e => simp only [step, hrj, if_false, hr, hj, ha]; exact h
          | ok t2 =>
            simp only [step, hrj, if_false, hr, hj, ha]
            have ht := h t (List.mem_of_getElem? hr)
            have hn := h n (List.mem_of_getElem? hj)
            exact forestSorted_set (forestSorted_set h (addNode_sorted t a n t2 ht hn ha)) allSorted_dead
  | getValue r a p => exact step_tree_case σ _ h rfl
  | setValue r a p v => exact step_tree_case σ _ h rfl
  | existsQ r a p => exact step_tree_case σ _ h rfl
  | count r a p => exact step_tree_case σ _ h rfl
  | first r a p => exact step_tree_case σ _ h rfl
  | select r a p => exact step_tree_case σ _ h rfl
  | addSegment r a s => exact step_tree_case σ _ h rfl
  | addLoop r a s => exact step_tree_case σ _ h rfl
  | deleteSegment r a s => exact step_tree_case σ _ h rfl
  | deleteNode r a p => exact step_tree_case σ _ h rfl

/-- … hence after ANY finite history of calls -/
theorem run_sorted : ∀ (ops : List Op) (σ : Forest), ForestSorted σ → ForestSorted (run σ ops).2
  | [], _, h => h
  | op :: r, σ, h => by
    simp only [run]
    exact run_sorted r _ (step_sorted σ op h)

end Pyx12Verif.DataTree
