/-
C03 run level: where the faulty step of an `XList …` derivation sits — the surplus instance's first segment is
answered with the over-used node itself (segment) or with the first segment of the over-repeated loop.
-/
import Pyx12Verif.Proofs.C03RunOver

namespace Pyx12Verif.WalkerGen
open Pyx12Verif.MapSkel Pyx12Verif.Walker

/-- the segment `x` on which the error `e` is reported instantiates the node the error is attached to -/
def FaultAt (e : WErr) (x : Emit) : Prop :=
  (e.1 = ErrKind.segMaxCount ∧ x.1 = e.2) ∨ (e.1 = ErrKind.loopMaxCount ∧ x.1 = e.2 ++ [0])

mutual
theorem xone_fault {K : Consts} {e : WErr} : ∀ {ip : List Nat} {c : Node} {pre : List Emit} {x : Emit} {post : List Emit},
    XOne K e ip c pre x post → FaultAt e x
  | _, _, _, _, _, .loop _ _ hl => xlist_fault hl
termination_by structural _ _ _ _ _ d => d
theorem xreps_fault {K : Consts} {e : WErr} : ∀ {ip : List Nat} {c : Node} {k : Nat} {pre : List Emit} {x : Emit}
    {post : List Emit}, XReps K e ip c k pre x post → FaultAt e x
  | _, _, _, _, _, _, .over _ _ _ hone he => by
    cases hone with
    | seg hm => left; rw [he, overErr_seg _ rfl]; exact ⟨rfl, rfl⟩
    | loop hseg hm hl => right; rw [he, overErr_loop _ rfl]; exact ⟨rfl, rfl⟩
  | _, _, _, _, _, _, .inside _ _ hone _ => xone_fault hone
  | _, _, _, _, _, _, .later _ _ _ hreps => xreps_fault hreps
termination_by structural _ _ _ _ _ _ d => d
theorem xchild_fault {K : Consts} {e : WErr} : ∀ {ip : List Nat} {c : Node} {pre : List Emit} {x : Emit} {post : List Emit},
    XChild K e ip c pre x post → FaultAt e x
  | _, _, _, _, _, .counted _ hreps => xreps_fault hreps
  | _, _, _, _, _, .wrapper _ _ hl => xlist_fault hl
termination_by structural _ _ _ _ _ d => d
theorem xlist_fault {K : Consts} {e : WErr} : ∀ {lip : List Nat} {i : Nat} {rest : List Node} {pre : List Emit} {x : Emit}
    {post : List Emit}, XList K e lip i rest pre x post → FaultAt e x
  | _, _, _, _, _, _, .here hchild _ => xchild_fault hchild
  | _, _, _, _, _, _, .later _ hlist => xlist_fault hlist
termination_by structural _ _ _ _ _ _ d => d
end

end Pyx12Verif.WalkerGen
