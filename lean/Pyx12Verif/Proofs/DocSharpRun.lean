/-
Helper lemmas for `Props/DocTotal2.lean`, glue side: the ORDER in which one round of `for seg in src:` hands events to the
error handler (`stepSeg_shape`), and the invariant of the whole loop (`runSegs_sharp`).

One round emits   walker reports (add_seg / seg_error)   ++   the structural call of the segment kind, before (headers,
plain segments) or after (trailers) the popped reader errors   ++   what `node.is_valid` reports (add_ele / ele_error).
-/
import Pyx12Verif.Proofs.DocSharpTree
import Pyx12Verif.Proofs.DocSharpFirst

namespace Pyx12Verif.Doc
open Pyx12Verif

/-! ### event classes -/

/-- what `handle_errors(src.pop_errors())` calls -/
def isRd : Event → Bool
  | .isaError _ => true
  | .gsError _ => true
  | .stError _ => true
  | .segError _ _ => true
  | _ => false

/-- what the walker's reports call -/
def isWalk : Event → Bool
  | .addSeg _ _ _ => true
  | .segError _ _ => true
  | _ => false

def RdOnly (l : List Event) : Prop := ∀ e ∈ l, isRd e = true
def WalkOnly (l : List Event) : Prop := ∀ e ∈ l, isWalk e = true

theorem rdEvent_isRd (e : RdErr) : isRd (rdEvent e) = true := by
  unfold rdEvent
  cases e.level <;> rfl

theorem map_rdEvent_rdOnly (l : List RdErr) : RdOnly (l.map rdEvent) := by
  intro e he
  obtain ⟨x, _, rfl⟩ := List.mem_map.1 he
  exact rdEvent_isRd x

theorem werrEvents_walkOnly (m : MapX) (sid : Str) (k : Nat) (e : Walker.WErr) : WalkOnly (werrEvents m sid k e) := by
  unfold werrEvents
  cases e.1 <;>
  · intro x hx
    simp only [List.mem_cons, List.mem_nil_iff, or_false] at hx
    rcases hx with rfl | rfl <;> rfl

theorem flatten_walkOnly : ∀ (l : List (List Event)), (∀ x ∈ l, WalkOnly x) → WalkOnly l.flatten
  | [], _ => by intro e he; cases he
  | a :: r, h => by
    intro e he
    simp only [List.flatten_cons, List.mem_append] at he
    rcases he with he | he
    · exact h a (by simp) e he
    · exact flatten_walkOnly r (fun x hx => h x (List.mem_cons_of_mem _ hx)) e he

/-- the structural call of a matched segment among the popped reader errors `pops` -/
inductive Mid (sid : Str) (pops : List Event) : List Event → Prop
  | isa (x : ErrTree.IsaData) : sid = Envelope.idISA → Mid sid pops (.addIsa x :: pops)
  | iea : sid = Envelope.idIEA → Mid sid pops (pops ++ [.closeIsa])
  | gs (x : ErrTree.GsData) : sid = Envelope.idGS → Mid sid pops (.addGs x :: pops)
  | ge (g : ErrTree.GeCount) (r : Nat) : sid = Envelope.idGE → Mid sid pops (pops ++ [.closeGs g r])
  | st (x : ErrTree.StData) : sid = Envelope.idST → Mid sid pops (.addSt x :: pops)
  | se : sid = Envelope.idSE → Mid sid pops (pops ++ [.closeSt])
  | plain (a : Str) (b : Nat) (c : Option Str) : sid ≠ Envelope.idISA → sid ≠ Envelope.idGS → sid ≠ Envelope.idST →
      sid ≠ Envelope.idSE → sid ≠ Envelope.idGE → Mid sid pops (.addSeg a b c :: pops)

/-! ### the per-kind branch -/

theorem plainTail_shape (s : Seg) (st st' : LState) (n n' : NodeRef) (evs : List Event)
    (h : plainTail s st n = .go st' n' evs) (h1 : s.id ≠ Envelope.idISA) (h2 : s.id ≠ Envelope.idGS)
    (h3 : s.id ≠ Envelope.idST) (h4 : s.id ≠ Envelope.idSE) (h5 : s.id ≠ Envelope.idGE) :
    st'.rs.loops = st.rs.loops ∧ n' = n ∧ Mid s.id (popEvents st) evs := by
  simp only [plainTail, Branch.go.injEq] at h
  obtain ⟨rfl, rfl, rfl⟩ := h
  exact ⟨rfl, rfl, .plain _ _ _ h1 h2 h3 h4 h5⟩

theorem gsTail_shape (ms : Maps) (d : Delims) (s : Seg) (st st' : LState) (m : MapX) (n' : NodeRef) (evs : List Event)
    (h : gsTail ms d s st m = .go st' n' evs) (hid : s.id = Envelope.idGS) :
    st'.rs.loops = st.rs.loops ∧ Mid s.id (popEvents st) evs := by
  unfold gsTail at h
  cases hf : fetchIn ms m (gsPath ms) with
  | none => rw [hf] at h; cases h
  | some n =>
    rw [hf] at h
    simp only [Branch.go.injEq] at h
    obtain ⟨rfl, _, rfl⟩ := h
    exact ⟨rfl, .gs _ hid⟩

theorem withNewMap_shape (ms : Maps) (st : LState) (file : Option Str) (k : LState → MapX → Branch)
    (st' : LState) (n' : NodeRef) (evs : List Event) (P : LState → List Event → Prop)
    (hk : ∀ st2 m, st2.rs.loops = st.rs.loops → popEvents st2 = popEvents st → k st2 m = .go st' n' evs → P st' evs)
    (h : withNewMap ms st file k = .go st' n' evs) : P st' evs := by
  unfold withNewMap at h
  cases file with
  | none => cases h
  | some f =>
    simp only at h
    cases hm : findMap ms f with
    | none => rw [hm] at h; cases h
    | some m =>
      simp only [hm] at h
      exact hk { st with mapFile := some f, curMap := some m, rs := { st.rs with chk837 := m.is837 } } m rfl rfl h

theorem branch_shape (ms : Maps) (d : Delims) (s : Seg) (st st' : LState) (n n' : NodeRef) (evs : List Event)
    (h : branch ms d s st n = .go st' n' evs) :
    st'.rs.loops = st.rs.loops ∧ Mid s.id (popEvents st) evs ∧ (s.id = Envelope.idISA → n' = n) := by
  unfold branch at h
  split at h
  · rename_i hid
    simp only [Branch.go.injEq] at h
    obtain ⟨rfl, rfl, rfl⟩ := h
    exact ⟨rfl, .isa _ hid, fun _ => rfl⟩
  · rename_i h1
    split at h
    · rename_i hid
      simp only [Branch.go.injEq] at h
      obtain ⟨rfl, _, rfl⟩ := h
      exact ⟨rfl, .iea hid, fun e => absurd e h1⟩
    · split at h
      · rename_i hid
        refine ⟨?_, ?_, fun e => absurd e h1⟩
        · unfold gsBranch at h
          split at h
          · exact withNewMap_shape ms { st with fic := gv d s 0, vriic := gv d s 7 } _ _ st' n' evs
              (fun a _ => a.rs.loops = st.rs.loops)
              (fun st2 m e1 _ hk => (gsTail_shape ms d s st2 st' m n' evs hk hid).1.trans e1) h
          · cases hm : st.curMap with
            | none => rw [hm] at h; cases h
            | some m => rw [hm] at h; exact (gsTail_shape ms d s _ st' m n' evs h hid).1
        · unfold gsBranch at h
          split at h
          · exact withNewMap_shape ms { st with fic := gv d s 0, vriic := gv d s 7 } _ _ st' n' evs
              (fun _ b => Mid s.id (popEvents st) b)
              (fun st2 m _ e2 hk => by
                have := (gsTail_shape ms d s st2 st' m n' evs hk hid).2
                rw [e2] at this
                exact this) h
          · cases hm : st.curMap with
            | none => rw [hm] at h; cases h
            | some m => rw [hm] at h; exact (gsTail_shape ms d s _ st' m n' evs h hid).2
      · rename_i h3
        split at h
        · rename_i hid
          have k1 : s.id ≠ Envelope.idST := by rw [hid]; decide
          have k2 : s.id ≠ Envelope.idSE := by rw [hid]; decide
          have k3 : s.id ≠ Envelope.idGE := by rw [hid]; decide
          refine ⟨?_, ?_, fun e => absurd e h1⟩
          · unfold bhtBranch at h
            split at h
            · split at h
              · exact withNewMap_shape ms st _ _ st' n' evs (fun a _ => a.rs.loops = st.rs.loops)
                  (fun st2 m e1 _ hk => by
                    unfold bhtSwitch at hk
                    cases hf : fetchIn ms m (bhtPath ms) with
                    | none => rw [hf] at hk; cases hk
                    | some nn =>
                      rw [hf] at hk
                      exact (plainTail_shape s st2 st' nn n' evs hk h1 h3 k1 k2 k3).1.trans e1) h
              · exact (plainTail_shape s st st' n n' evs h h1 h3 k1 k2 k3).1
            · exact (plainTail_shape s st st' n n' evs h h1 h3 k1 k2 k3).1
          · unfold bhtBranch at h
            split at h
            · split at h
              · exact withNewMap_shape ms st _ _ st' n' evs (fun _ b => Mid s.id (popEvents st) b)
                  (fun st2 m _ e2 hk => by
                    unfold bhtSwitch at hk
                    cases hf : fetchIn ms m (bhtPath ms) with
                    | none => rw [hf] at hk; cases hk
                    | some nn =>
                      rw [hf] at hk
                      have := (plainTail_shape s st2 st' nn n' evs hk h1 h3 k1 k2 k3).2.2
                      rw [e2] at this
                      exact this) h
              · exact (plainTail_shape s st st' n n' evs h h1 h3 k1 k2 k3).2.2
            · exact (plainTail_shape s st st' n n' evs h h1 h3 k1 k2 k3).2.2
        · split at h
          · rename_i hid
            simp only [Branch.go.injEq] at h
            obtain ⟨rfl, _, rfl⟩ := h
            exact ⟨rfl, .ge _ _ hid, fun e => absurd e h1⟩
          · rename_i h5
            split at h
            · rename_i hid
              simp only [Branch.go.injEq] at h
              obtain ⟨rfl, _, rfl⟩ := h
              exact ⟨rfl, .st _ hid, fun e => absurd e h1⟩
            · rename_i h6
              split at h
              · rename_i hid
                simp only [Branch.go.injEq] at h
                obtain ⟨rfl, _, rfl⟩ := h
                exact ⟨rfl, .se hid, fun e => absurd e h1⟩
              · rename_i h7
                have := plainTail_shape s st st' n n' evs h h1 h3 h6 h7 h5
                exact ⟨this.1, this.2.2, fun e => absurd e h1⟩

/-! ### the node search -/

theorem findNode_shape (ms : Maps) (control : MapX) (d : Delims) (s : Seg) (k : Nat) (st : LState)
    (n : Option NodeRef) (cnt : Walker.Counter) (evs : List Event)
    (h : findNode ms control d s k st = .res n cnt evs) :
    WalkOnly evs ∧ (s.id = Envelope.idISA → n = fetchIn ms control (isaPath ms)) ∧
      (s.id = Envelope.idGS → n = fetchIn ms control (gsPath ms)) := by
  unfold findNode at h
  split at h
  · rename_i hid
    simp only [Found.res.injEq] at h
    obtain ⟨rfl, _, rfl⟩ := h
    exact ⟨fun e he => (by cases he), fun _ => rfl, fun e => (by rw [hid] at e; exact absurd e (by decide))⟩
  · rename_i h1
    split at h
    · simp only [Found.res.injEq] at h
      obtain ⟨rfl, _, rfl⟩ := h
      exact ⟨fun e he => (by cases he), fun e => absurd e h1, fun _ => rfl⟩
    · rename_i h2
      cases hn : st.node with
      | none => rw [hn] at h; cases h
      | some cur =>
        rw [hn] at h
        simp only [walkFound, foundOf, Found.res.injEq] at h
        obtain ⟨_, _, rfl⟩ := h
        refine ⟨?_, fun e => absurd e h1, fun e => absurd e h2⟩
        apply flatten_walkOnly
        intro x hx
        obtain ⟨e, _, rfl⟩ := List.mem_map.1 hx
        exact werrEvents_walkOnly _ _ _ _

/-! ### one round -/

/-- what a round that goes on to the next segment handed to the error handler, and what the reader did -/
theorem stepSeg_shape (ms : Maps) (ctx : Ctx) (control : MapX) (d : Delims) (le : List SegText.RErr) (s : Seg)
    (st st' : LState) (out : SegOut) (h : stepSeg ms ctx control d le s st = .next st' out) :
    ∃ v rs' es w mid tl,
      Pipeline.viewOf d s = some v ∧ Envelope.step Envelope.Fixes.all st.rs v = .ok (rs', es) ∧
      st'.rs.loops = rs'.loops ∧ out.sid = s.id ∧ out.events = w ++ mid ++ tl ∧ WalkOnly w ∧ EleOnly tl ∧
      ((out.matched = false ∧ mid = [] ∧ tl = [] ∧
          (s.id = Envelope.idISA → fetchIn ms control (isaPath ms) = none) ∧
          (s.id = Envelope.idGS → fetchIn ms control (gsPath ms) = none)) ∨
       (out.matched = true ∧
          Mid s.id ((st.pend ++ le.map lineErr ++ baseErrs s ++ es.map envErr).map rdEvent) mid ∧
          (s.id = Envelope.idISA → ∀ n, fetchIn ms control (isaPath ms) = some n →
            ∃ sd vv, lookupDef n.map n.ip = some sd ∧ segEvents ctx n.map.v5010 d sd s = .ok vv tl))) := by
  unfold stepSeg at h
  cases hv : Pipeline.viewOf d s with
  | none => rw [hv] at h; cases h
  | some v =>
    rw [hv] at h
    simp only [withView] at h
    cases hr : Envelope.step Envelope.Fixes.all st.rs v with
    | crash e => rw [hr] at h; cases h
    | raised => rw [hr] at h; cases h
    | ok r =>
      rw [hr] at h
      simp only [afterReader, afterStep] at h
      cases hf : findNode ms control d s r.1.segCount
          { st with rs := r.1, pend := st.pend ++ le.map lineErr ++ baseErrs s ++ r.2.map envErr } with
      | crash site => rw [hf] at h; cases h
      | res n cnt evs =>
        rw [hf] at h
        obtain ⟨hw, hisa, hgs⟩ := findNode_shape _ _ _ _ _ _ _ _ _ hf
        cases n with
        | none =>
          simp only [afterFind, Step.next.injEq] at h
          obtain ⟨rfl, rfl⟩ := h
          refine ⟨v, r.1, r.2, evs, [], [], rfl, (by rw [hr]), rfl, rfl, (by simp), hw, EleOnly.nil, Or.inl ⟨rfl, rfl, rfl, ?_, ?_⟩⟩
          · intro e; exact (hisa e).symm
          · intro e; exact (hgs e).symm
        | some nd =>
          simp only [afterFind] at h
          cases hb : branch ms d s
              { st with rs := r.1, pend := st.pend ++ le.map lineErr ++ baseErrs s ++ r.2.map envErr, cnt := cnt } nd with
          | stop o => rw [hb] at h; cases h
          | go st2 n2 evs2 =>
            rw [hb] at h
            obtain ⟨b1, b2, b3⟩ := branch_shape _ _ _ _ _ _ _ _ hb
            simp only [validate] at h
            cases hl : lookupDef n2.map n2.ip with
            | none => rw [hl] at h; cases h
            | some sd =>
              rw [hl] at h
              simp only at h
              cases hs : segEvents ctx n2.map.v5010 d sd s with
              | crash site => rw [hs] at h; cases h
              | ok vv evs3 =>
                rw [hs] at h
                simp only [Step.next.injEq] at h
                obtain ⟨rfl, rfl⟩ := h
                have he3 := segEvents_eleOnly ctx n2.map.v5010 d sd s
                rw [hs] at he3
                refine ⟨v, r.1, r.2, evs, evs2, evs3, rfl, (by rw [hr]), b1, rfl, rfl, hw, he3, Or.inr ⟨rfl, b2, ?_⟩⟩
                intro e n hn
                have : nd = n := by
                  have := hisa e
                  rw [hn] at this
                  exact Option.some.inj this
                rw [← this, ← b3 e]
                exact ⟨sd, vv, hl, hs⟩

/-! ### `node.is_valid` begins with `add_ele` when the first child is a simple element -/

theorem andThen_ok {a b : ERes} {v : Bool} {evs : List Event} (h : a.andThen b = .ok v evs) :
    ∃ va ea vb eb, a = .ok va ea ∧ b = .ok vb eb ∧ evs = ea ++ eb := by
  cases a with
  | crash s => cases h
  | ok va ea =>
    cases b with
    | crash s => cases h
    | ok vb eb =>
      simp only [ERes.andThen, ERes.ok.injEq] at h
      exact ⟨va, ea, vb, eb, rfl, rfl, h.2.symm⟩

theorem elemEvents_head (ctx : Ctx) (v5 : Bool) (pos : Nat) (sub : Option Nat) (e : ElemX) (tl : List Str) (i : EIn)
    (v : Bool) (evs : List Event) (h : elemEvents ctx v5 pos sub e tl i = .ok v evs) :
    ∃ r, evs = .addEle pos sub e.dataEle :: r := by
  unfold elemEvents at h
  split at h
  · cases h
  · simp only [ERes.ok.injEq] at h
    exact ⟨_, h.2.symm⟩

theorem tooManyEvents_head (d : Delims) (sd : SegDef) (s : Seg) (v : Bool) (evs : List Event)
    (h : tooManyEvents d sd s = .ok v evs) : evs = [] ∨ ∃ p sp rf r, evs = .addEle p sp rf :: r := by
  unfold tooManyEvents at h
  split at h
  · split at h
    · cases h
    · unfold tooManyValue at h
      split at h
      · cases h
      · simp only [ERes.ok.injEq] at h; exact Or.inr ⟨_, _, _, _, h.2.symm⟩
      · simp only [ERes.ok.injEq] at h; exact Or.inr ⟨_, _, _, _, h.2.symm⟩
  · simp only [ERes.ok.injEq] at h; exact Or.inl h.2.symm

/-- with a simple element as first child, the first thing `segment_if.is_valid` hands over is an `add_ele` -/
theorem segEvents_head (ctx : Ctx) (v5 : Bool) (d : Delims) (sd : SegDef) (s : Seg) (x : ElemX) (cs : List ChildX)
    (hc : sd.children = .elem x :: cs) (v : Bool) (evs : List Event) (h : segEvents ctx v5 d sd s = .ok v evs) :
    ∃ p sp rf r, evs = .addEle p sp rf :: r := by
  unfold segEvents at h
  obtain ⟨v1, e1, v2, e2, h1, _, rfl⟩ := andThen_ok h
  obtain ⟨v3, e3, v4, e4, h3, h4, rfl⟩ := andThen_ok h1
  have hch : ∃ p sp rf r, e4 = .addEle p sp rf :: r := by
    rw [hc] at h4
    cases hel : s.elems with
    | nil =>
      rw [hel] at h4
      simp only [childrenEvents] at h4
      obtain ⟨va, ea, vb, eb, ha, _, rfl⟩ := andThen_ok h4
      simp only [childAbsent] at ha
      obtain ⟨r, rfl⟩ := elemEvents_head _ _ _ _ _ _ _ _ _ ha
      exact ⟨_, _, _, _, rfl⟩
    | cons e es =>
      rw [hel] at h4
      simp only [childrenEvents] at h4
      obtain ⟨va, ea, vb, eb, ha, _, rfl⟩ := andThen_ok h4
      simp only [childPresent, elemAt] at ha
      cases hi : elemIn (Pipeline.sepOf d s.id) e with
      | none => rw [hi] at ha; cases ha
      | some i =>
        rw [hi] at ha
        obtain ⟨r, rfl⟩ := elemEvents_head _ _ _ _ _ _ _ _ _ ha
        exact ⟨_, _, _, _, rfl⟩
  rcases tooManyEvents_head d sd s v3 e3 h3 with rfl | ⟨p, sp, rf, r, rfl⟩
  · obtain ⟨p, sp, rf, r, rfl⟩ := hch
    exact ⟨p, sp, rf, _, rfl⟩
  · exact ⟨p, sp, rf, _, rfl⟩

end Pyx12Verif.Doc
