/-
C12 at pipeline level, DIFFERENT component separators — ONE ROUND of `for seg in src:` commutes with the swap.

`stepSeg_rename`: for a segment that reads alike under both separators up to the swap (`SegRen`, Proofs/DocDelimSubSeg.lean)
and separators that are neutral for the glue (`GlueNeutral`: not in any string the skeletons / the map index / the glue
compare a printed value with, invisible to `int()`), the round under `d₂` from the swapped loop state is the round under
`d₁` with
  * the same way of stopping (same `Outcome`), or
  * the swapped next loop state — reader state (control numbers seen, open envelopes), ISA12 / GS01 / GS08 remembered by
    the glue; walker counter, matched node, current map, pending reader errors and `valid` EQUAL —
    and the same segment report: identifier, matched flag, node, popped reader errors, and the events up to the separator
    (`EvEq`).
-/
import Pyx12Verif.Proofs.DocDelimSubSeg
import Pyx12Verif.Proofs.DocDelimSubEnv

namespace Pyx12Verif.Doc
open Pyx12Verif

/-! ### neutrality of the two separators for the glue -/

structure GlueNeutral (ms : Maps) (a b : Char) : Prop where
  intern : ∀ m ∈ ms.maps, ∀ p ∈ m.intern, a ∉ p.1 ∧ b ∉ p.1
  index : ∀ x ∈ ms.index, ∀ f ∈ [x.icvn, x.vriic, x.fic, x.tspc], ∀ v, f = some v → a ∉ v ∧ b ∉ v
  dtpA : DtpFree a
  dtpB : DtpFree b
  fa : a ∉ sFA ∧ b ∉ sFA
  va : a ∉ v278a ∧ b ∉ v278a
  vb : a ∉ v278b ∧ b ∉ v278b
  intA : Envelope.IntNeutral a
  intB : Envelope.IntNeutral b

theorem glueNeutral_of {ms : Maps} {a b : Char} (h1 : SepNeutral' ms a) (h2 : SepNeutral' ms b) : GlueNeutral ms a b :=
  { intern := fun m hm p hp => ⟨h1.1 m hm p hp, h2.1 m hm p hp⟩
    index := fun x hx f hf v hv => ⟨h1.2.1 x hx f hf v hv, h2.2.1 x hx f hf v hv⟩
    dtpA := h1.2.2.1
    dtpB := h2.2.2.1
    fa := ⟨h1.2.2.2.1, h2.2.2.2.1⟩
    va := ⟨h1.2.2.2.2.1, h2.2.2.2.2.1⟩
    vb := ⟨h1.2.2.2.2.2.1, h2.2.2.2.2.2.1⟩
    intA := h1.2.2.2.2.2.2
    intB := h2.2.2.2.2.2.2 }

theorem isDigit_of_core {c : Char} (h : c.isDigit = true) : Envelope.isDigit c = true := by
  simp only [Char.isDigit, Bool.and_eq_true, decide_eq_true_eq] at h
  simp only [Envelope.isDigit, Bool.and_eq_true, decide_eq_true_eq]
  exact ⟨by simpa [Char.le_def] using h.1, by simpa [Char.le_def] using h.2⟩

theorem decimal_free {c : Char} (h : Envelope.IntNeutral c) (n : Nat) : c ∉ Envelope.decimal n := by
  intro hm
  have h1 : c.isDigit = true := Nat.isDigit_of_mem_toDigits (by decide) (by decide) hm
  have h2 := isDigit_of_core h1
  rw [isDigit_false_of_pyDigitVal h.1] at h2
  cases h2

/-- the swap of two `int()`-neutral characters is a renaming the reader cannot see -/
theorem sw_strIso {a b : Char} (ha : Envelope.IntNeutral a) (hb : Envelope.IntNeutral b) : Envelope.StrIso (sw a b) :=
  { inj := fun _ _ h => sw_inj h
    int := pyInt_sw ha hb
    nil := fun _ => sw_eq_nil
    dec := fun n => sw_free (decimal_free ha n) (decimal_free hb n) }

/-! ### the swapped loop state -/

def swL (a b : Char) (st : LState) : LState :=
  { rs := st.rs.ren (sw a b), pend := st.pend, cnt := st.cnt, node := st.node, mapFile := st.mapFile,
    curMap := st.curMap, icvn := st.icvn.map (sw a b), fic := st.fic.map (sw a b), vriic := st.vriic.map (sw a b),
    valid := st.valid }

/-- the maps the loop state points to are maps of `ms` -/
structure StOk (ms : Maps) (st : LState) : Prop where
  node : ∀ n, st.node = some n → n.map ∈ ms.maps
  cur : ∀ m, st.curMap = some m → m ∈ ms.maps

def OutRel (a b : Char) (o₁ o₂ : SegOut) : Prop :=
  o₂.sid = o₁.sid ∧ o₂.matched = o₁.matched ∧ o₂.node = o₁.node ∧ o₂.popped = o₁.popped ∧ EvEq a b o₁.events o₂.events

inductive StepRel (ms : Maps) (a b : Char) : Step → Step → Prop
  | stop (o : Outcome) : StepRel ms a b (.stop o) (.stop o)
  | next {st : LState} {out out' : SegOut} : StOk ms st → OutRel a b out out' →
      StepRel ms a b (.next st out) (.next (swL a b st) out')

inductive BranchRel (ms : Maps) (a b : Char) : Branch → Branch → Prop
  | stop (o : Outcome) : BranchRel ms a b (.stop o) (.stop o)
  | go {st : LState} {n : NodeRef} {evs evs' : List Event} : n.map ∈ ms.maps → (∀ m, st.curMap = some m → m ∈ ms.maps) →
      EvEq a b evs evs' → BranchRel ms a b (.go st n evs) (.go (swL a b st) n evs')

/-! ### lookups that do not see the swap -/

theorem find?_congr' {α : Type} (p q : α → Bool) : ∀ (l : List α), (∀ x ∈ l, p x = q x) → l.find? p = l.find? q := by
  intro l
  induction l with
  | nil => intro _; rfl
  | cons x r ih =>
    intro h
    simp only [List.find?_cons, h x (by simp), ih (fun y hy => h y (List.mem_cons_of_mem _ hy))]

theorem lookupStr_sw {a b : Char} (t : List (Str × Nat)) (unk : Nat) (h : ∀ p ∈ t, a ∉ p.1 ∧ b ∉ p.1) (v : Str) :
    lookupStr t unk (sw a b v) = lookupStr t unk v := by
  unfold lookupStr
  rw [find?_congr' (fun p => p.1 == sw a b v) (fun p => p.1 == v) t]
  intro p hp
  have := @sw_eq_const a b v p.1 (h p hp).1 (h p hp).2
  show (p.1 == sw a b v) = (p.1 == v)
  rw [Bool.eq_iff_iff]
  simp only [beq_iff_eq]
  exact ⟨fun e => (this.1 e.symm).symm, fun e => (this.2 e.symm).symm⟩

theorem internV_sw {a b : Char} (m : MapX) (unk : Nat) (h : ∀ p ∈ m.intern, a ∉ p.1 ∧ b ∉ p.1) (o : Option Str) :
    internV m unk (o.map (sw a b)) = internV m unk o := by
  cases o with
  | none => rfl
  | some v => simp only [Option.map_some, internV, sw_isEmpty, lookupStr_sw m.intern unk h]

/-- an optional constant free of both separators equals a swapped optional value iff it equals the value -/
theorem optConst_sw {a b : Char} (K o : Option Str) (h : ∀ v, K = some v → a ∉ v ∧ b ∉ v) :
    K = o.map (sw a b) ↔ K = o := by
  cases K with
  | none => cases o <;> simp
  | some k =>
    cases o with
    | none => simp
    | some v =>
      simp only [Option.map_some, Option.some.injEq]
      have := @sw_eq_const a b v k (h k rfl).1 (h k rfl).2
      exact ⟨fun e => (this.1 e.symm).symm, fun e => (this.2 e.symm).symm⟩

theorem getFilename_sw {a b : Char} : ∀ (idx : List IndexEntry),
    (∀ x ∈ idx, ∀ f ∈ [x.icvn, x.vriic, x.fic, x.tspc], ∀ v, f = some v → a ∉ v ∧ b ∉ v) →
    ∀ (i v f t : Option Str),
      getFilename idx (i.map (sw a b)) (v.map (sw a b)) (f.map (sw a b)) (t.map (sw a b)) = getFilename idx i v f t := by
  intro idx
  induction idx with
  | nil => intro _ i v f t; rfl
  | cons x r ih =>
    intro h i v f t
    have hx := h x (by simp)
    have e1 := optConst_sw x.icvn i (hx x.icvn (by simp))
    have e2 := optConst_sw x.vriic v (hx x.vriic (by simp))
    have e3 := optConst_sw x.fic f (hx x.fic (by simp))
    have e4 := optConst_sw x.tspc t (hx x.tspc (by simp))
    have e5 : t.map (sw a b) = none ↔ t = none := by cases t <;> simp
    simp only [getFilename, e1, e2, e3, e4, e5, ih (fun y hy => h y (List.mem_cons_of_mem _ hy))]

theorem geCount_sw {a b : Char} (ha : Envelope.IntNeutral a) (hb : Envelope.IntNeutral b) (o : Option Str) :
    geCount (o.map (sw a b)) = geCount o := by
  cases o with
  | none => rfl
  | some v => simp only [Option.map_some, geCount, pyInt_sw ha hb]

theorem loopId_ren (f : Str → Str) (k : Envelope.Kind) (rs : Envelope.RState) :
    loopId k (rs.ren f) = (loopId k rs).map f := by
  unfold loopId
  have : (rs.ren f).loops.reverse = rs.loops.reverse.map (fun p => (p.1, p.2.map f)) := by
    simp [Envelope.RState.ren]
  rw [this, List.find?_map]
  cases h : rs.loops.reverse.find? (fun p => p.1 == k) with
  | none =>
    have : List.find? ((fun p => p.1 == k) ∘ fun p : Envelope.Kind × Option Str => (p.1, p.2.map f)) rs.loops.reverse =
        none := h
    rw [this]; rfl
  | some p =>
    have : List.find? ((fun p => p.1 == k) ∘ fun p : Envelope.Kind × Option Str => (p.1, p.2.map f)) rs.loops.reverse =
        some p := h
    rw [this]; rfl

/-! ### the reader's view -/

def mapFetch (f : Str → Str) : Pipeline.Fetch → Pipeline.Fetch
  | .crash => .crash
  | .got v => .got (v.map f)

theorem ctlIdx_lt {id : Str} {k : Nat} (h : Pipeline.ctlIdx id = some k) : k < 15 := by
  unfold Pipeline.ctlIdx at h
  repeat' split at h
  all_goals first | (injection h with h; omega) | cases h

theorem cntIdx_lt {id : Str} {k : Nat} (h : Pipeline.cntIdx id = some k) : k < 15 := by
  unfold Pipeline.cntIdx at h
  repeat' split at h
  all_goals first | (injection h with h; omega) | cases h

section
variable {ms : Maps} {d₁ d₂ : Delims} {s : Seg}

theorem gv_ren (h : SegRen d₁ d₂ s) (k : Nat) (hk : k < 15) : gv d₂ s k = (gv d₁ s k).map (sw d₁.sub d₂.sub) := by
  simp only [gv, h.gvs k hk, optV_mapGetV]

theorem fetch_ren (h : SegRen d₁ d₂ s) (o : Option Nat) (ho : ∀ k, o = some k → k < 15) :
    Pipeline.fetch d₂ s o = mapFetch (sw d₁.sub d₂.sub) (Pipeline.fetch d₁ s o) := by
  cases o with
  | none => rfl
  | some k =>
    simp only [Pipeline.fetch, h.gvs k (ho k rfl)]
    cases Pipeline.getValue d₁ s k <;> rfl

theorem viewOf_ren (h : SegRen d₁ d₂ s) :
    Pipeline.viewOf d₂ s = (Pipeline.viewOf d₁ s).map (Envelope.SegView.ren (sw d₁.sub d₂.sub)) := by
  unfold Pipeline.viewOf
  rw [fetch_ren h _ (fun k hk => ctlIdx_lt hk), fetch_ren h _ (fun k hk => cntIdx_lt hk)]
  cases Pipeline.fetch d₁ s (Pipeline.cntIdx s.id) with
  | crash => rfl
  | got c =>
    cases Pipeline.fetch d₁ s (Pipeline.ctlIdx s.id) with
    | crash => rfl
    | got k => rfl

theorem segData_ren (N : GlueNeutral ms d₁.sub d₂.sub) (h : SegRen d₁ d₂ s) (m : MapX) (hm : m ∈ ms.maps) :
    segData ms m d₂ s = segData ms m d₁ s := by
  have hi := N.intern m hm
  simp only [segData, gv_ren h 0 (by omega), gv_ren h 1 (by omega), gv_ren h 2 (by omega), internV_sw m ms.unk hi]

/-! ### the node search -/

theorem fetchIn_map {ms : Maps} {m : MapX} {p : List (Nat × Nat)} {n : NodeRef} (h : fetchIn ms m p = some n) :
    n.map = m := by
  unfold fetchIn at h
  split at h
  · injection h with h; rw [← h]
  · cases h

theorem findNode_ren (N : GlueNeutral ms d₁.sub d₂.sub) (h : SegRen d₁ d₂ s) (control : MapX) (k : Nat) (st : LState)
    (hok : StOk ms st) :
    findNode ms control d₂ s k (swL d₁.sub d₂.sub st) = findNode ms control d₁ s k st := by
  unfold findNode
  split
  · rfl
  · split
    · rfl
    · have : (swL d₁.sub d₂.sub st).node = st.node := rfl
      rw [this]
      cases hn : st.node with
      | none => rfl
      | some cur =>
        simp only [walkFound, segData_ren N h cur.map (hok.node cur hn)]
        rfl

theorem findNode_map (control : MapX) (hc : control ∈ ms.maps) (d : Delims) (k : Nat) (st : LState) (hok : StOk ms st)
    {n : NodeRef} {cnt : Walker.Counter} {evs : List Event}
    (h : findNode ms control d s k st = .res (some n) cnt evs) : n.map ∈ ms.maps := by
  unfold findNode at h
  split at h
  · injection h with h1 _ _
    rw [fetchIn_map h1]; exact hc
  · split at h
    · injection h with h1 _ _
      rw [fetchIn_map h1]; exact hc
    · cases hn : st.node with
      | none => rw [hn] at h; cases h
      | some cur =>
        rw [hn] at h
        simp only [walkFound, foundOf] at h
        injection h with h1 _ _
        split at h1
        · injection h1 with h1
          rw [← h1]; exact hok.node cur hn
        · cases h1

/-! ### the per-segment-kind branch -/

theorem isaData_ren (h : SegRen d₁ d₂ s) : isaData d₂ s = ErrTree.IsaData.ren (sw d₁.sub d₂.sub) (isaData d₁ s) := by
  simp only [isaData, ErrTree.IsaData.ren, gv_ren h 4 (by omega), gv_ren h 5 (by omega), gv_ren h 6 (by omega),
    gv_ren h 7 (by omega), gv_ren h 8 (by omega), gv_ren h 9 (by omega), gv_ren h 10 (by omega),
    gv_ren h 11 (by omega), gv_ren h 12 (by omega), gv_ren h 13 (by omega), gv_ren h 14 (by omega)]

theorem gsData_ren (h : SegRen d₁ d₂ s) (rs : Envelope.RState) :
    gsData d₂ s (rs.ren (sw d₁.sub d₂.sub)) = ErrTree.GsData.ren (sw d₁.sub d₂.sub) (gsData d₁ s rs) := by
  simp only [gsData, ErrTree.GsData.ren, gv_ren h 0 (by omega), gv_ren h 1 (by omega), gv_ren h 2 (by omega),
    gv_ren h 5 (by omega), gv_ren h 6 (by omega), gv_ren h 7 (by omega), loopId_ren]

theorem stData_ren (h : SegRen d₁ d₂ s) (rs : Envelope.RState) :
    stData d₂ s (rs.ren (sw d₁.sub d₂.sub)) = ErrTree.StData.ren (sw d₁.sub d₂.sub) (stData d₁ s rs) := by
  simp only [stData, ErrTree.StData.ren, gv_ren h 0 (by omega), gv_ren h 2 (by omega), loopId_ren]

theorem renEvent_addIsa (a b : Char) (d : ErrTree.IsaData) :
    renEvent a b (.addIsa (ErrTree.IsaData.ren (sw a b) d)) = renEvent a b (.addIsa d) := by
  simp only [renEvent, ErrTree.Event.ren, ErrTree.IsaData.ren, mapComp_optSw]

theorem renEvent_addGs (a b : Char) (d : ErrTree.GsData) :
    renEvent a b (.addGs (ErrTree.GsData.ren (sw a b) d)) = renEvent a b (.addGs d) := by
  simp only [renEvent, ErrTree.Event.ren, ErrTree.GsData.ren, mapComp_optSw]

theorem renEvent_addSt (a b : Char) (d : ErrTree.StData) :
    renEvent a b (.addSt (ErrTree.StData.ren (sw a b) d)) = renEvent a b (.addSt d) := by
  simp only [renEvent, ErrTree.Event.ren, ErrTree.StData.ren, mapComp_optSw]

theorem popEvents_swL (a b : Char) (st : LState) : popEvents (swL a b st) = popEvents st := rfl

theorem plainTail_ren (s : Seg) (st : LState) (n : NodeRef) (hn : n.map ∈ ms.maps)
    (hcur : ∀ m, st.curMap = some m → m ∈ ms.maps) (a b : Char) :
    BranchRel ms a b (plainTail s st n) (plainTail s (swL a b st) n) :=
  .go (st := st.popped) hn hcur (EvEq.refl a b _)

theorem gsTail_ren (h : SegRen d₁ d₂ s) (st : LState) (m : MapX) (hm : m ∈ ms.maps)
    (hcur : ∀ m, st.curMap = some m → m ∈ ms.maps) :
    BranchRel ms d₁.sub d₂.sub (gsTail ms d₁ s st m) (gsTail ms d₂ s (swL d₁.sub d₂.sub st) m) := by
  unfold gsTail
  cases hf : fetchIn ms m (gsPath ms) with
  | none => exact .stop _
  | some n =>
    refine .go (st := st.popped) (by rw [fetchIn_map hf]; exact hm) hcur ?_
    refine EvEq.cons ?_ (EvEq.refl _ _ _)
    have : (swL d₁.sub d₂.sub st).rs = st.rs.ren (sw d₁.sub d₂.sub) := rfl
    rw [this, gsData_ren h, renEvent_addGs]

theorem withNewMap_ren (a b : Char) (st : LState) (file : Option Str) (k k' : LState → MapX → Branch)
    (hk : ∀ st m, m ∈ ms.maps → (∀ x, st.curMap = some x → x ∈ ms.maps) →
      BranchRel ms a b (k st m) (k' (swL a b st) m)) :
    BranchRel ms a b (withNewMap ms st file k) (withNewMap ms (swL a b st) file k') := by
  unfold withNewMap
  cases file with
  | none => exact .stop _
  | some f =>
    simp only
    cases hm : findMap ms f with
    | none => exact .stop _
    | some m =>
      have hmem : m ∈ ms.maps := List.mem_of_find?_eq_some hm
      exact hk { st with mapFile := some f, curMap := some m, rs := { st.rs with chk837 := m.is837 } } m hmem
        (fun x hx => by simp only [Option.some.injEq] at hx; rw [← hx]; exact hmem)

theorem gsBranch_ren (N : GlueNeutral ms d₁.sub d₂.sub) (h : SegRen d₁ d₂ s) (st : LState)
    (hcur : ∀ m, st.curMap = some m → m ∈ ms.maps) :
    BranchRel ms d₁.sub d₂.sub (gsBranch ms d₁ s st) (gsBranch ms d₂ s (swL d₁.sub d₂.sub st)) := by
  unfold gsBranch
  rw [gv_ren h 7 (by omega), gv_ren h 0 (by omega)]
  have hfile : getFilename ms.index (swL d₁.sub d₂.sub st).icvn ((gv d₁ s 7).map (sw d₁.sub d₂.sub))
      ((gv d₁ s 0).map (sw d₁.sub d₂.sub)) none = getFilename ms.index st.icvn (gv d₁ s 7) (gv d₁ s 0) none :=
    getFilename_sw ms.index N.index st.icvn (gv d₁ s 7) (gv d₁ s 0) none
  have hmf : (swL d₁.sub d₂.sub st).mapFile = st.mapFile := rfl
  have hcm : (swL d₁.sub d₂.sub st).curMap = st.curMap := rfl
  rw [hfile, hmf, hcm]
  split
  · exact withNewMap_ren d₁.sub d₂.sub { st with fic := gv d₁ s 0, vriic := gv d₁ s 7 } _ _ _
      (fun st' m hm hc => gsTail_ren h st' m hm hc)
  · cases hc : st.curMap with
    | none => exact .stop _
    | some m =>
      exact gsTail_ren h { st with fic := gv d₁ s 0, vriic := gv d₁ s 7, curMap := some m } m (hcur m hc)
        (fun x hx => by simp only [Option.some.injEq] at hx; rw [← hx]; exact hcur m hc)

theorem bhtSwitch_ren (a b : Char) (st : LState) (m : MapX) (hm : m ∈ ms.maps)
    (hcur : ∀ m, st.curMap = some m → m ∈ ms.maps) :
    BranchRel ms a b (bhtSwitch ms s st m) (bhtSwitch ms s (swL a b st) m) := by
  unfold bhtSwitch
  cases hf : fetchIn ms m (bhtPath ms) with
  | none => exact .stop _
  | some n => exact plainTail_ren s st n (by rw [fetchIn_map hf]; exact hm) hcur a b

theorem optSw_eq_const {a b : Char} (o : Option Str) (K : Str) (h1 : a ∉ K) (h2 : b ∉ K) :
    o.map (sw a b) = some K ↔ o = some K := by
  cases o with
  | none => simp
  | some v => simp only [Option.map_some, Option.some.injEq]; exact sw_eq_const h1 h2

theorem bhtBranch_ren (N : GlueNeutral ms d₁.sub d₂.sub) (h : SegRen d₁ d₂ s) (st : LState) (n : NodeRef)
    (hn : n.map ∈ ms.maps) (hcur : ∀ m, st.curMap = some m → m ∈ ms.maps) :
    BranchRel ms d₁.sub d₂.sub (bhtBranch ms d₁ s st n) (bhtBranch ms d₂ s (swL d₁.sub d₂.sub st) n) := by
  unfold bhtBranch
  have hv : (swL d₁.sub d₂.sub st).vriic = st.vriic.map (sw d₁.sub d₂.sub) := rfl
  have hfile : getFilename ms.index (swL d₁.sub d₂.sub st).icvn (swL d₁.sub d₂.sub st).vriic
      (swL d₁.sub d₂.sub st).fic (gv d₂ s 1) = getFilename ms.index st.icvn st.vriic st.fic (gv d₁ s 1) := by
    rw [gv_ren h 1 (by omega)]
    exact getFilename_sw ms.index N.index st.icvn st.vriic st.fic (gv d₁ s 1)
  have hmf : (swL d₁.sub d₂.sub st).mapFile = st.mapFile := rfl
  rw [hfile, hmf, hv]
  simp only [optSw_eq_const st.vriic v278a N.va.1 N.va.2, optSw_eq_const st.vriic v278b N.vb.1 N.vb.2]
  split
  · split
    · exact withNewMap_ren _ _ _ _ _ _ (fun st' m hm hc => bhtSwitch_ren _ _ st' m hm hc)
    · exact plainTail_ren s st n hn hcur _ _
  · exact plainTail_ren s st n hn hcur _ _

theorem branch_ren (N : GlueNeutral ms d₁.sub d₂.sub) (h : SegRen d₁ d₂ s) (st : LState) (n : NodeRef)
    (hn : n.map ∈ ms.maps) (hcur : ∀ m, st.curMap = some m → m ∈ ms.maps) :
    BranchRel ms d₁.sub d₂.sub (branch ms d₁ s st n) (branch ms d₂ s (swL d₁.sub d₂.sub st) n) := by
  unfold branch
  split
  · have : { (swL d₁.sub d₂.sub st).popped with icvn := gv d₂ s 11 } =
        swL d₁.sub d₂.sub { st.popped with icvn := gv d₁ s 11 } := by
      rw [gv_ren h 11 (by omega)]; rfl
    rw [this]
    refine .go hn hcur (EvEq.cons ?_ (EvEq.refl _ _ _))
    rw [isaData_ren h, renEvent_addIsa]
  · split
    · exact .go (st := st.popped) hn hcur (EvEq.refl _ _ _)
    · split
      · exact gsBranch_ren N h st hcur
      · split
        · exact bhtBranch_ren N h st n hn hcur
        · split
          · refine .go (st := st.popped) hn hcur ?_
            rw [gv_ren h 0 (by omega), geCount_sw N.intA N.intB]
            exact EvEq.refl _ _ _
          · split
            · refine .go (st := st.popped) hn hcur (EvEq.cons ?_ (EvEq.refl _ _ _))
              have : (swL d₁.sub d₂.sub st).rs = st.rs.ren (sw d₁.sub d₂.sub) := rfl
              rw [this, stData_ren h, renEvent_addSt]
            · split
              · exact .go (st := st.popped) hn hcur (EvEq.refl _ _ _)
              · exact plainTail_ren s st n hn hcur _ _

/-! ### `is_valid`, and the round -/

theorem validate_ren (ctx : Ctx) (h : SegRen d₁ d₂ s) (me : List Event) (pp : List RdErr) {b₁ b₂ : Branch}
    (hb : BranchRel ms d₁.sub d₂.sub b₁ b₂) :
    StepRel ms d₁.sub d₂.sub (validate ctx d₁ s me pp b₁) (validate ctx d₂ s me pp b₂) := by
  cases hb with
  | stop o => exact .stop o
  | go hn hcur hev =>
    rename_i st n evs evs'
    simp only [validate]
    cases lookupDef n.map n.ip with
    | none => exact .stop _
    | some sd =>
      simp only
      have := h.evs ctx n.map.v5010 sd
      revert this
      generalize segEvents ctx n.map.v5010 d₁ sd s = r₁
      generalize segEvents ctx n.map.v5010 d₂ sd s = r₂
      intro hr
      cases hr with
      | crash site => exact .stop _
      | ok v he =>
        refine .next (st := { st with node := some n, valid := st.valid && v }) ⟨?_, hcur⟩
          ⟨rfl, rfl, rfl, rfl, ((EvEq.refl _ _ me).append hev).append he⟩
        intro x hx
        simp only [Option.some.injEq] at hx
        rw [← hx]; exact hn

theorem afterFind_ren (N : GlueNeutral ms d₁.sub d₂.sub) (ctx : Ctx) (h : SegRen d₁ d₂ s) (st : LState)
    (hok : StOk ms st) (f : Found) (hf : ∀ n cnt evs, f = .res (some n) cnt evs → n.map ∈ ms.maps) :
    StepRel ms d₁.sub d₂.sub (afterFind ms ctx d₁ s st f) (afterFind ms ctx d₂ s (swL d₁.sub d₂.sub st) f) := by
  cases f with
  | crash site => exact .stop _
  | res n cnt evs =>
    cases n with
    | none =>
      exact .next (st := { st with cnt := cnt }) ⟨hok.node, hok.cur⟩ ⟨rfl, rfl, rfl, rfl, EvEq.refl _ _ _⟩
    | some x =>
      simp only [afterFind]
      have : { swL d₁.sub d₂.sub st with cnt := cnt } = swL d₁.sub d₂.sub { st with cnt := cnt } := rfl
      rw [this]
      exact validate_ren ctx h evs st.pend (branch_ren N h { st with cnt := cnt } x (hf x cnt evs rfl) hok.cur)

theorem afterStep_ren (N : GlueNeutral ms d₁.sub d₂.sub) (ctx : Ctx) (control : MapX) (hc : control ∈ ms.maps)
    (h : SegRen d₁ d₂ s) (st : LState) (hok : StOk ms st) :
    StepRel ms d₁.sub d₂.sub (afterStep ms ctx control d₁ s st)
      (afterStep ms ctx control d₂ s (swL d₁.sub d₂.sub st)) := by
  unfold afterStep
  have hsc : (swL d₁.sub d₂.sub st).rs.segCount = st.rs.segCount := rfl
  rw [hsc, findNode_ren N h control _ st hok]
  exact afterFind_ren N ctx h st hok _ (fun n cnt evs hf => findNode_map control hc d₁ _ st hok hf)

/-- **one round of the loop commutes with the swap of the two component separators** -/
theorem stepSeg_rename (N : GlueNeutral ms d₁.sub d₂.sub) (ctx : Ctx) (control : MapX) (hc : control ∈ ms.maps)
    (h : SegRen d₁ d₂ s) (le : List SegText.RErr) (st : LState) (hok : StOk ms st) :
    StepRel ms d₁.sub d₂.sub (stepSeg ms ctx control d₁ le s st)
      (stepSeg ms ctx control d₂ le s (swL d₁.sub d₂.sub st)) := by
  unfold stepSeg
  rw [viewOf_ren h]
  cases Pipeline.viewOf d₁ s with
  | none => exact .stop _
  | some v =>
    simp only [Option.map_some, withView]
    have hrs : (swL d₁.sub d₂.sub st).rs = st.rs.ren (sw d₁.sub d₂.sub) := rfl
    have hp : (swL d₁.sub d₂.sub st).pend = st.pend := rfl
    rw [hrs, hp, Envelope.step_ren (sw_strIso N.intA N.intB)]
    cases Envelope.step Envelope.Fixes.all st.rs v with
    | crash e => exact .stop _
    | raised => exact .stop _
    | ok r =>
      simp only [Envelope.renOut, afterReader]
      have : { swL d₁.sub d₂.sub st with rs := r.1.ren (sw d₁.sub d₂.sub),
                                         pend := st.pend ++ le.map lineErr ++ baseErrs s ++ r.2.map envErr } =
          swL d₁.sub d₂.sub { st with rs := r.1, pend := st.pend ++ le.map lineErr ++ baseErrs s ++ r.2.map envErr } := rfl
      rw [this]
      exact afterStep_ren N ctx control hc h _ ⟨hok.node, hok.cur⟩

end

end Pyx12Verif.Doc
