/-
C05 at pipeline level, error-tree side (4): the error tree REFINES the ledger.

`step_sim` / `run_sim`: along any run of `err_handler` that does not raise, what the acknowledgement reads off the tree
(`gviews`: the groups, `sviews`: the sets, both in document order) is the ledger of the event list —
  * identifiers, control numbers, totals, closed flags, numbers of errors and of sets: always (`gcore`, `score`);
  * the acceptance codes and the "an error is attached" flags: as long as no `ele_error` met a stale `cur_ele_node`
    (`Ledger.ok`, see Proofs/DocC05Ledger.lean).
-/
import Pyx12Verif.Proofs.DocC05Ptr

namespace Pyx12Verif.DocC05
open Pyx12Verif.ErrTree

def gviews (t : Tree) : List GV := (allG t).map gv
def sviews (t : Tree) : List SV := (allS t).map sv

def segAnch : SegPtr → Bool
  | .none => false
  | .pending _ => true
  | .host (.seg _ _ _ _) => true
  | .host (.isa _) => false
  | .host (.gs _ _) => false
  | .host (.st _ _ _) => false

/-- `cur_ele_node` was prepared for the current segment node -/
def EleOk (s : State) : Prop :=
  match s.curEle with
  | .none => False
  | .pending _ => True
  | .linked h => s.curSeg = .host h

structure SimV (s : State) (L : Ledger) : Prop where
  anch : L.anchored = segAnch s.curSeg
  ele : L.fresh = true → EleOk s
  gcore : (gviews s.tree).map GV.core = L.gs.map GV.core
  score : (sviews s.tree).map SV.core = L.st.map SV.core
  ierr : (isaErrs s.tree).sum = L.isaErrs
  full : L.ok = true → gviews s.tree = L.gs ∧ sviews s.tree = L.st

structure Sim (s : State) (L : Ledger) : Prop extends SimV s L where
  /-- a linked segment node carries an error (it is linked by the call that reports one) -/
  hd : L.ok = true → ∀ i g k j, s.curSeg = .host (.seg i g k j) → ∃ S v, L.st = S ++ [v] ∧ v.dirty = true

/-! ### views under the tree updates -/

theorem isaErrs_modIsa (t : Tree) (i : Nat) (f : Isa → Isa) (hf : ∀ a, (f a).errors = a.errors) :
    isaErrs (modIsa t i f) = isaErrs t := by
  unfold isaErrs modIsa
  exact map_modNth_same _ f (fun a => by simp [hf]) t i

theorem isaErrs_modGs (t : Tree) (i g : Nat) (f : Gs → Gs) : isaErrs (modGs t i g f) = isaErrs t :=
  isaErrs_modIsa t i _ (fun _ => rfl)
theorem isaErrs_modSt (t : Tree) (i g k : Nat) (f : St → St) : isaErrs (modSt t i g k f) = isaErrs t :=
  isaErrs_modIsa t i _ (fun _ => rfl)
theorem isaErrs_modSeg (t : Tree) (i g k j : Nat) (f : Seg → Seg) : isaErrs (modSeg t i g k j f) = isaErrs t :=
  isaErrs_modIsa t i _ (fun _ => rfl)

theorem isaErrs_hostMod (t : Tree) (h : Host) (fe : List Ele → List Ele) : isaErrs (hostMod t h fe) = isaErrs t := by
  cases h <;> exact isaErrs_modIsa t _ _ (fun _ => rfl)

theorem gviews_modIsa (t : Tree) (i : Nat) (f : Isa → Isa) (hf : ∀ a, (f a).children = a.children) :
    gviews (modIsa t i f) = gviews t := by
  unfold gviews; rw [allG_modIsa_children t i f hf]

theorem sviews_modIsa (t : Tree) (i : Nat) (f : Isa → Isa) (hf : ∀ a, (f a).children = a.children) :
    sviews (modIsa t i f) = sviews t := by
  unfold sviews; rw [allS_modIsa_children t i f hf]

theorem gviews_modGs (t : Tree) (i g : Nat) (F : Gs → Gs) (hF : ∀ x, gv (F x) = gv x) :
    gviews (modGs t i g F) = gviews t := allG_map_modGs gv t i g F hF

theorem sviews_modGs (t : Tree) (i g : Nat) (F : Gs → Gs) (hF : ∀ x, (F x).children = x.children) :
    sviews (modGs t i g F) = sviews t := by
  unfold sviews; rw [allS_modGs_children t i g F hF]

theorem gviews_modSt (t : Tree) (i g k : Nat) (f : St → St) : gviews (modSt t i g k f) = gviews t := by
  unfold modSt
  exact gviews_modGs t i g _ (fun x => by simp [gv, modNth_length])

theorem gviews_modSeg (t : Tree) (i g k j : Nat) (f : Seg → Seg) : gviews (modSeg t i g k j f) = gviews t :=
  gviews_modSt t i g k _

theorem sviews_modSt (t : Tree) (i g k : Nat) (f : St → St) (hf : ∀ s, sv (f s) = sv s) :
    sviews (modSt t i g k f) = sviews t := allS_map_modSt sv t i g k f hf

theorem score_modSt (t : Tree) (i g k : Nat) (f : St → St) (hf : ∀ s, (sv (f s)).core = (sv s).core) :
    (sviews (modSt t i g k f)).map SV.core = (sviews t).map SV.core := by
  unfold sviews
  rw [List.map_map, List.map_map]
  exact allS_map_modSt (SV.core ∘ sv) t i g k f hf

theorem gviews_hostMod (t : Tree) (h : Host) (fe : List Ele → List Ele) : gviews (hostMod t h fe) = gviews t := by
  cases h with
  | isa i => exact gviews_modIsa t i _ (fun _ => rfl)
  | gs i g => exact gviews_modGs t i g _ (fun _ => rfl)
  | st i g k => exact gviews_modSt t i g k _
  | seg i g k j => exact gviews_modSeg t i g k j _

theorem score_hostMod (t : Tree) (h : Host) (fe : List Ele → List Ele) :
    (sviews (hostMod t h fe)).map SV.core = (sviews t).map SV.core := by
  cases h with
  | isa i => exact congrArg (List.map SV.core) (sviews_modIsa t i _ (fun _ => rfl))
  | gs i g => exact congrArg (List.map SV.core) (sviews_modGs t i g _ (fun _ => rfl))
  | st i g k => exact score_modSt t i g k _ (fun _ => rfl)
  | seg i g k j => exact score_modSt t i g k _ (fun _ => rfl)

/-- an `elements` list of an envelope node is not looked at by `err_st.err_count` -/
theorem sviews_hostMod_env (t : Tree) (h : Host) (fe : List Ele → List Ele) (hh : ∀ i g k j, h ≠ .seg i g k j) :
    sviews (hostMod t h fe) = sviews t := by
  cases h with
  | isa i => exact sviews_modIsa t i _ (fun _ => rfl)
  | gs i g => exact sviews_modGs t i g _ (fun _ => rfl)
  | st i g k => exact sviews_modSt t i g k _ (fun _ => rfl)
  | seg i g k j => exact absurd rfl (hh i g k j)

/-! ### records under `modLast` -/

theorem core_snoc {α β : Type} (c : α → β) (A : List α) (a : α) (L : List α) (h : (A ++ [a]).map c = L.map c) :
    ∃ L0 v, L = L0 ++ [v] ∧ A.map c = L0.map c ∧ c a = c v := by
  have h' : L.map c = A.map c ++ [c a] := by rw [← h]; simp
  obtain ⟨L0, v, e1, e2, e3⟩ := map_eq_snoc c L _ _ h'
  exact ⟨L0, v, e1, e2.symm, e3.symm⟩

theorem core_modLast {α β : Type} (c : α → β) (A : List α) (a a' : α) (L : List α) (F : α → α)
    (h : (A ++ [a]).map c = L.map c) (hF : ∀ v, c v = c a → c (F v) = c a') :
    (A ++ [a']).map c = (modLast F L).map c := by
  obtain ⟨L0, v, rfl, e1, e2⟩ := core_snoc c A a L h
  rw [modLast_snoc]
  simp [e1, hF v e2.symm]

theorem full_modLast {α : Type} (A : List α) (a a' : α) (L : List α) (F : α → α) (h : A ++ [a] = L) (hF : F a = a') :
    A ++ [a'] = modLast F L := by
  subst h
  rw [modLast_snoc, hF]

theorem map_core_markDirty (l : List SV) : (modLast markDirty l).map SV.core = l.map SV.core := by
  rcases snoc_cases l with rfl | ⟨r, x, rfl⟩
  · rfl
  · rw [modLast_snoc]; simp [markDirty, SV.core]

theorem attach_core (L : Ledger) : (attach L).st.map SV.core = L.st.map SV.core := by
  unfold attach
  split
  · exact map_core_markDirty L.st
  · rfl

theorem attach_gs (L : Ledger) : (attach L).gs = L.gs := by unfold attach; split <;> rfl
theorem attach_isaErrs (L : Ledger) : (attach L).isaErrs = L.isaErrs := by unfold attach; split <;> rfl
theorem attach_anchored (L : Ledger) : (attach L).anchored = L.anchored := by unfold attach; split <;> rfl
theorem attach_fresh (L : Ledger) : (attach L).fresh = L.fresh := by unfold attach; split <;> rfl
theorem attach_ok (L : Ledger) : (attach L).ok = L.ok := by unfold attach; split <;> rfl

/-! ### `_add_cur_seg` -/

theorem addCurSeg_host (s s1 : State) (x : Host) (hc : s.curSeg = .host x) (h : addCurSeg s = some s1) : s1 = s := by
  unfold addCurSeg at h
  rw [hc] at h
  injection h with h
  exact h.symm

theorem addCurSeg_shape (s s1 : State) (h : addCurSeg s = some s1) :
    s1.curIsa = s.curIsa ∧ s1.curGs = s.curGs ∧ s1.curSt = s.curSt ∧ s1.curEle = s.curEle ∧
      (∃ x, s1.curSeg = .host x) ∧ segAnch s1.curSeg = segAnch s.curSeg := by
  unfold addCurSeg at h
  cases hc : s.curSeg with
  | none => rw [hc] at h; cases h
  | host x =>
    rw [hc] at h
    injection h with h
    subst h
    exact ⟨rfl, rfl, rfl, rfl, ⟨x, hc⟩, by rw [hc]⟩
  | pending sg =>
    rw [hc] at h
    cases hs : s.curSt with
    | none => rw [hs] at h; cases h
    | some p =>
      rw [hs] at h
      injection h with h
      subst h
      exact ⟨rfl, rfl, rfl, rfl, ⟨_, rfl⟩, rfl⟩

theorem errCount_snoc_clean (st : St) (sg : Seg) (h1 : sg.errors = []) (h2 : sg.elements = []) :
    sv { st with children := st.children ++ [sg] } = sv st := by
  simp [sv, St.errCount, St.childErrCount, segChild_snoc_clean st.children sg h1 h2]

theorem addCurSeg_simV (s s1 : State) (L : Ledger) (hp : PInv s) (h : SimV s L) (hs : addCurSeg s = some s1) :
    SimV s1 L := by
  obtain ⟨_, _, _, a4, _, a6⟩ := addCurSeg_shape s s1 hs
  unfold addCurSeg at hs
  cases hc : s.curSeg with
  | none => rw [hc] at hs; cases hs
  | host x => rw [hc] at hs; injection hs with hs; subst hs; exact h
  | pending sg =>
    rw [hc] at hs
    cases hpp : s.curSt with
    | none => rw [hpp] at hs; cases hs
    | some p =>
      rw [hpp] at hs
      injection hs with hs
      subst hs
      obtain ⟨q1, q2⟩ := hp.pend sg hc
      have hsv : sviews (modSt s.tree p.1 p.2.1 p.2.2 (fun x => { x with children := x.children ++ [sg] })) = sviews s.tree :=
        sviews_modSt _ _ _ _ _ (fun st => errCount_snoc_clean st sg q1 q2)
      refine ⟨?_, ?_, ?_, ?_, ?_, ?_⟩
      · rw [h.anch, hc]; rfl
      · intro hf
        have := h.ele hf
        unfold EleOk at this ⊢
        simp only
        cases he : s.curEle with
        | none => rw [he] at this; exact this
        | pending e => trivial
        | linked x => rw [he, hc] at this; cases this
      · simp only [gviews_modSt]; exact h.gcore
      · simp only [hsv]; exact h.score
      · simp only [isaErrs_modSt]; exact h.ierr
      · intro hok
        simp only [gviews_modSt, hsv]
        exact h.full hok

/-! ### dirty after an attached error -/

theorem errCount_pos_of_child (st : St) (l : List Seg) (h : segChildErrCount l > 0) :
    ({ st with children := l } : St).errCount > 0 := by
  show st.errors.length + (if segChildErrCount l > 0 then 1 else 0) > 0
  rw [if_pos h]; omega

theorem sv_dirty_eq (st st' : St) (h1 : st'.trnSetId = st.trnSetId) (h2 : st'.ctlNum = st.ctlNum)
    (h3 : st'.ackCode = st.ackCode) (h4 : st'.closed = st.closed) (h5 : st'.errCount > 0) :
    sv st' = markDirty (sv st) := by
  simp [sv, markDirty, h1, h2, h3, h4, h5]

theorem st_dirty_of_seg (st : St) (F : Seg → Seg) (j : Nat) (hj : j < st.children.length)
    (hF : ∀ sg, (F sg).errCount > 0) :
    sv { st with children := modNth F st.children j } = markDirty (sv st) :=
  sv_dirty_eq st _ rfl rfl rfl rfl (errCount_pos_of_child st _ (segChild_pos_of_modNth F hF st.children j hj))

theorem st_dirty_mono (st : St) (F : Seg → Seg) (j : Nat) (hd : (sv st).dirty = true)
    (hF : ∀ sg, sg.errCount > 0 → (F sg).errCount > 0) :
    sv { st with children := modNth F st.children j } = markDirty (sv st) := by
  refine sv_dirty_eq st { st with children := modNth F st.children j } rfl rfl rfl rfl ?_
  simp only [sv, decide_eq_true_eq] at hd
  have hd' : st.errors.length + (if segChildErrCount st.children > 0 then 1 else 0) > 0 := hd
  show st.errors.length + (if segChildErrCount (modNth F st.children j) > 0 then 1 else 0) > 0
  by_cases h0 : segChildErrCount st.children > 0
  · have := segChild_mono_modNth F hF st.children j h0
    rw [if_pos this]; omega
  · rw [if_neg h0] at hd'
    omega

theorem seg_err_pos (sg : Seg) (x : SegErr) : ({ sg with errors := sg.errors ++ [x] } : Seg).errCount > 0 := by
  simp only [Seg.errCount, List.length_append, List.length_singleton]
  omega

theorem seg_ele_pos (sg : Seg) (e : Ele) (x : EleErr) :
    ({ sg with elements := sg.elements ++ [e.addError x] } : Seg).errCount > 0 := by
  have := eleChild_append_pos sg.elements (e.addError x) (by simp [Ele.errCount, Ele.addError])
  simp only [Seg.errCount, Seg.childErrCount, this, if_true]
  omega

theorem seg_ele_mono (sg : Seg) (x : EleErr) (h : sg.errCount > 0) :
    ({ sg with elements := modLast (fun e => e.addError x) sg.elements } : Seg).errCount > 0 := by
  simp only [Seg.errCount, Seg.childErrCount] at h ⊢
  by_cases h0 : eleChildErrCount sg.elements > 0
  · have := eleChild_mono_modLast x sg.elements h0
    simp only [this, if_true]; omega
  · simp only [h0, if_false] at h
    omega

/-- the last set, seen from a linked segment node -/
theorem host_seg_extract (s : State) (hp : PInv s) (i g k j : Nat) (hc : s.curSeg = .host (.seg i g k j)) :
    ∃ S st, allS s.tree = S ++ [st] ∧ j < st.children.length ∧
      ∀ f, allS (modSt s.tree i g k f) = S ++ [f st] := by
  obtain ⟨h1, Lc, h2⟩ := hp.host _ hc
  obtain ⟨S, st, e1, _, e3⟩ := stLast_extract s.tree i g k (hp.st i g k h1)
  refine ⟨S, st, e1, ?_, e3⟩
  unfold segCounts at h2
  rw [e1] at h2
  simp only [List.map_append, List.map_cons, List.map_nil] at h2
  have := (snoc_inj h2).2
  omega

end Pyx12Verif.DocC05
