/-
Boolean checkers, with soundness, for the acknowledgement-side hypotheses of `C06R.ack997_revalidates` (Props/C06Reval.lean):
for a concrete error-tree state the hypotheses `Complete`, `TrailerSafe`, `IsaPlain`, `EchoSafe`, `EchoFits`, `WithinRepeatsOf`,
`SizesFit` (and `RefNumsFit` of `ack997_ak402_not_echo`) are decided by evaluation (used by Props/C06RevalExample2.lean to show that they are jointly satisfiable).
-/
import Pyx12Verif.Props.C06Reval

namespace Pyx12Verif.C06R
open Pyx12Verif Pyx12Verif.Ack Pyx12Verif.C06 Pyx12Verif.C05 Pyx12Verif.MapSkel

/-- `∀ v, o = some v → p v` -/
def optAll {α : Type} (o : Option α) (p : α → Bool) : Bool :=
  match o with
  | some a => p a
  | none => true

theorem optAll_spec {α : Type} {o : Option α} {p : α → Bool} (h : optAll o p = true) : ∀ v, o = some v → p v = true := by
  intro v hv; subst hv; exact h

theorem contains_false_iff {l : List Char} {c : Char} : l.contains c = false ↔ c ∉ l := by
  constructor
  · intro h hm
    rw [List.contains_iff_mem.2 hm] at h; cases h
  · intro h
    cases hc : l.contains c with
    | false => rfl
    | true => exact absurd (List.contains_iff_mem.1 hc) h

def safeB (v : Str) : Bool := !v.contains '*' && !v.contains ':' && !v.contains '~'

theorem safe_of_b {v : Str} (h : safeB v = true) : Safe v := by
  simp only [safeB, Bool.and_eq_true, Bool.not_eq_true', contains_false_iff] at h
  exact ⟨h.1.1, h.1.2, h.2⟩

/-! ### `Complete` -/

def completeB (s : ErrTree.State) : Bool :=
  (match curIsaNode s with
   | some a => a.e05.isSome && a.e06.isSome && a.e07.isSome && a.e08.isSome && a.e11.isSome && a.e12.isSome &&
       a.e15.isSome && !(a.ta1Req == some ['1'])
   | none => false) &&
  (match curGsNode s with
   | some g => g.gs02.isSome && g.gs03.isSome && g.gs06.isSome && g.gs07.isSome
   | none => false) &&
  (allGs s.tree).all (fun g => g.children.all (fun st => st.trnSetId.isSome && st.ctlNum.isSome))

theorem complete_of_b (s : ErrTree.State) (h : completeB s = true) : Complete s := by
  simp only [completeB, Bool.and_eq_true, List.all_eq_true] at h
  obtain ⟨⟨h1, h2⟩, h3⟩ := h
  refine ⟨?_, ?_, fun g hg st hst => h3 g hg st hst⟩
  · cases ha : curIsaNode s with
    | none => rw [ha] at h1; cases h1
    | some a =>
      rw [ha] at h1
      simp only [Bool.and_eq_true, Bool.not_eq_true', beq_eq_false_iff_ne, ne_eq] at h1
      obtain ⟨⟨⟨⟨⟨⟨⟨a1, a2⟩, a3⟩, a4⟩, a5⟩, a6⟩, a7⟩, a8⟩ := h1
      exact ⟨a, rfl, a1, a2, a3, a4, a5, a6, a7, a8⟩
  · cases hg : curGsNode s with
    | none => rw [hg] at h2; cases h2
    | some g =>
      rw [hg] at h2
      simp only [Bool.and_eq_true] at h2
      obtain ⟨⟨⟨g1, g2⟩, g3⟩, g4⟩ := h2
      exact ⟨g, rfl, g1, g2, g3, g4⟩

/-! ### `TrailerSafe`, non-empty control numbers -/

def trailerSafeB (s : ErrTree.State) (p : Params) : Bool :=
  safeB (isaCtl p) && optAll (curGsNode s) (fun g => optAll g.gs06 safeB)

theorem trailerSafe_of_b (s : ErrTree.State) (p : Params) (h : trailerSafeB s p = true) : TrailerSafe s p := by
  simp only [trailerSafeB, Bool.and_eq_true] at h
  exact ⟨safe_of_b h.1, fun g hg v hv => safe_of_b (optAll_spec (optAll_spec h.2 g hg) v hv)⟩

def gs06B (s : ErrTree.State) : Bool := optAll (curGsNode s) (fun g => !(g.gs06 == some []))

theorem gs06_of_b (s : ErrTree.State) (h : gs06B s = true) : ∀ g, curGsNode s = some g → g.gs06 ≠ some [] := by
  intro g hg
  have := optAll_spec h g hg
  simpa using this

/-! ### `IsaPlain` -/

def noColonB (o : Option Str) : Bool := optAll o (fun v => !v.contains ':')

theorem noColon_of_b {o : Option Str} (h : noColonB o = true) : NoColon o := by
  intro v hv
  have := optAll_spec h v hv
  simpa using this

def widthsB (a : ErrTree.Isa) (p : Params) : Bool :=
  match a.e05, a.e06, a.e07, a.e08, a.e11, a.e15 with
  | some v05, some v06, some v07, some v08, some v11, some v15 =>
    decide ([v07, v08, v05, v06, p.date6, p.time4, v11, isaCtl p, v15].map List.length = [2, 15, 2, 15, 6, 4, 1, 9, 1])
  | _, _, _, _, _, _ => true

def isaPlainB (s : ErrTree.State) (p : Params) (icvn : Str) : Bool :=
  optAll (curIsaNode s) (fun a => noColonB a.e05 && noColonB a.e06 && noColonB a.e07 && noColonB a.e08 && noColonB a.e11 &&
    noColonB a.e12 && noColonB a.e15 && widthsB a p && a.e12 == some icvn) &&
  !p.date6.contains ':' && !p.time4.contains ':' && (icvn == Tokenizer.v4010 || icvn == Tokenizer.v5010)

theorem isaPlain_of_b (s : ErrTree.State) (p : Params) (icvn : Str) (h : isaPlainB s p icvn = true) : IsaPlain s p icvn := by
  simp only [isaPlainB, Bool.and_eq_true, Bool.not_eq_true', contains_false_iff, Bool.or_eq_true, beq_iff_eq] at h
  obtain ⟨⟨⟨h1, h2⟩, h3⟩, h4⟩ := h
  have ha : ∀ a, curIsaNode s = some a → _ := fun a ha => optAll_spec h1 a ha
  refine ⟨?_, ⟨h2, h3⟩, ?_, ?_, h4⟩
  · intro a hca
    have := ha a hca
    simp only [Bool.and_eq_true] at this
    obtain ⟨⟨⟨⟨⟨⟨⟨⟨n1, n2⟩, n3⟩, n4⟩, n5⟩, n6⟩, n7⟩, _⟩, _⟩ := this
    exact ⟨noColon_of_b n1, noColon_of_b n2, noColon_of_b n3, noColon_of_b n4, noColon_of_b n5, noColon_of_b n6,
      noColon_of_b n7⟩
  · intro a v05 v06 v07 v08 v11 v15 hca e05 e06 e07 e08 e11 e15
    have := ha a hca
    simp only [Bool.and_eq_true] at this
    have hw := this.1.2
    simp only [widthsB, e05, e06, e07, e08, e11, e15, decide_eq_true_eq] at hw
    exact hw
  · intro a hca
    have := ha a hca
    simp only [Bool.and_eq_true, beq_iff_eq] at this
    exact this.2

/-! ### `EchoFits` -/

def presentAdmB0 (ctx : Doc.Ctx) (v5 : Bool) (e : List Str) : Doc.ChildX → Bool
  | .elem x =>
    (match e with
     | [v] => Doc.elemAdmB ctx v5 x [] (.simple v)
     | _ => false)
  | .comp u _ _ _ _ kids => Doc.compAdmB ctx v5 u kids (some e)

theorem presentAdm0_of_b (ctx : Doc.Ctx) (v5 : Bool) (e : List Str) (c : Doc.ChildX) (h : presentAdmB0 ctx v5 e c = true) :
    PresentAdm0 ctx v5 e c := by
  cases c with
  | comp u seq nm rd de kids => exact Doc.compAdm_of_b ctx v5 u kids (some e) h
  | elem x =>
    cases e with
    | nil => cases h
    | cons v r =>
      cases r with
      | nil => exact ⟨v, rfl, Doc.elemAdm_of_b ctx v5 x [] _ h⟩
      | cons w r2 => cases h

def echoAdmB (ctx : Doc.Ctx) (v5 : Bool) (own : Own) (minLen : Nat) : Nat → List Doc.ChildX → List (List Str) → Bool
  | _, [], es => es.isEmpty
  | i, c :: cs, [] => (!decide (i < minLen) || Doc.childAbsentAdmB ctx v5 c) && echoAdmB ctx v5 own minLen (i + 1) cs []
  | i, c :: cs, e :: es => (own i e || presentAdmB0 ctx v5 e c) && echoAdmB ctx v5 own minLen (i + 1) cs es

theorem echoAdm_of_b (ctx : Doc.Ctx) (v5 : Bool) (own : Own) (minLen : Nat) :
    ∀ (cs : List Doc.ChildX) (i : Nat) (es : List (List Str)), echoAdmB ctx v5 own minLen i cs es = true →
      EchoAdm ctx v5 own minLen i cs es := by
  intro cs
  induction cs with
  | nil => intro i es h; simpa [echoAdmB, EchoAdm] using h
  | cons c cs ih =>
    intro i es h
    cases es with
    | nil =>
      simp only [echoAdmB, Bool.and_eq_true, Bool.or_eq_true, Bool.not_eq_true', decide_eq_false_iff_not] at h
      refine ⟨fun hi => ?_, ih (i + 1) [] h.2⟩
      rcases h.1 with h1 | h1
      · exact absurd hi h1
      · exact Doc.childAbsentAdm_of_b ctx v5 c h1
    | cons e es =>
      simp only [echoAdmB, Bool.and_eq_true, Bool.or_eq_true] at h
      refine ⟨fun ho => ?_, ih (i + 1) es h.2⟩
      rcases h.1 with h1 | h1
      · rw [ho] at h1; cases h1
      · exact presentAdm0_of_b ctx v5 e c h1

def echoFitsSegB (ctx : Doc.Ctx) (m : Doc.MapX) (ip : List Nat) (k : KindSpec) (x : PSeg) : Bool :=
  match Doc.lookupDef m ip with
  | some sd => echoAdmB ctx m.v5010 k.own k.minLen 0 sd.children (toSeg x).elems
  | none => true

theorem echoFitsSeg_of_b (ctx : Doc.Ctx) (m : Doc.MapX) (ip : List Nat) (k : KindSpec) (x : PSeg)
    (h : echoFitsSegB ctx m ip k x = true) : EchoFitsSeg ctx m ip k x := by
  intro sd hsd
  simp only [echoFitsSegB, hsd] at h
  exact echoAdm_of_b ctx m.v5010 k.own k.minLen sd.children 0 _ h

def echoFitsB (ctx : Doc.Ctx) (control : Doc.MapX) (cip : List Nat) (m : Doc.MapX) (s : ErrTree.State) (p : Params) : Bool :=
  match (ack997 fixed s p).out with
  | isa :: gs :: rest =>
    echoFitsSegB ctx control cip kISA isa && echoFitsSegB ctx m [0, 1, 0] kGS gs &&
      rest.all (fun x => echoFitsSegB ctx m (ipOf x.id) (kindOf x.id) x)
  | _ => true

theorem echoFits_of_b (ctx : Doc.Ctx) (control : Doc.MapX) (cip : List Nat) (m : Doc.MapX) (s : ErrTree.State) (p : Params)
    (h : echoFitsB ctx control cip m s p = true) : EchoFits ctx control cip m s p := by
  unfold echoFitsB at h
  refine ⟨?_, ?_, ?_⟩ <;> intro isa gs rest hout <;> rw [hout] at h <;>
    simp only [Bool.and_eq_true, List.all_eq_true] at h
  · exact echoFitsSeg_of_b _ _ _ _ _ h.1.1
  · exact echoFitsSeg_of_b _ _ _ _ _ h.1.2
  · intro x hx
    exact echoFitsSeg_of_b _ _ _ _ _ (h.2 x hx)

/-! ### `EchoSafe`, `WithinRepeatsOf`, `SizesFit` -/

def pSegCleanB (x : PSeg) : Bool :=
  x.elems.all (fun c => !c.isEmpty && c.all (fun v => !v.contains '~' && !v.contains '*' && !v.contains ':'))

def nonBareB (x : PSeg) : Bool := x.elems.any (fun c => c.any (fun v => !v.isEmpty))

def echoSafeB (s : ErrTree.State) (p : Params) : Bool := (ack997 fixed s p).out.all (fun x => pSegCleanB x && nonBareB x)

theorem echoSafe_of_b (s : ErrTree.State) (p : Params) (h : echoSafeB s p = true) : EchoSafe s p := by
  intro x hx
  simp only [echoSafeB, List.all_eq_true, Bool.and_eq_true] at h
  obtain ⟨h1, h2⟩ := h x hx
  refine ⟨?_, ?_⟩
  · intro c hc
    simp only [pSegCleanB, List.all_eq_true, Bool.and_eq_true, Bool.not_eq_true', contains_false_iff,
      List.isEmpty_eq_false_iff] at h1
    obtain ⟨a, b⟩ := h1 c hc
    exact ⟨a, fun v hv => ⟨(b v hv).1.1, (b v hv).1.2, (b v hv).2⟩⟩
  · simp only [nonBareB, List.any_eq_true, Bool.not_eq_true', List.isEmpty_eq_false_iff] at h2
    obtain ⟨c, hc, v, hv, hne⟩ := h2
    exact ⟨c, hc, v, hv, hne⟩

def withinB (r n : Nat) : Bool := r == 0 || decide (n ≤ r)

theorem within_of_b {r n : Nat} (h : withinB r n = true) : within r n := by
  simp only [withinB, Bool.or_eq_true, beq_iff_eq, decide_eq_true_eq] at h
  exact h

def withinRepeatsB (root : List Node) (s : ErrTree.State) : Bool :=
  match view997 root with
  | some S =>
    (allGs s.tree).all (fun g => withinB S.ak2L.rep g.children.length &&
      g.children.all (fun st => withinB S.ak3L.rep (ak3CountAll st.children) &&
        st.children.all (fun sg => withinB S.ak4.maxUse (ak4Count sg))))
  | none => true

theorem withinRepeats_of_b (root : List Node) (s : ErrTree.State) (h : withinRepeatsB root s = true) :
    WithinRepeatsOf root s := by
  intro S hS
  simp only [withinRepeatsB, hS, List.all_eq_true, Bool.and_eq_true] at h
  exact ⟨fun g hg => within_of_b (h g hg).1, fun g hg st hst => within_of_b ((h g hg).2 st hst).1,
    fun g hg st hst sg hsg => within_of_b (((h g hg).2 st hst).2 sg hsg)⟩

/-! ### `RefNumsFit` -/

def refShortB (e : ErrTree.Ele) : Bool :=
  match e.refNum with
  | some r => decide (r.length ≤ 4)
  | none => true

def refNumsFitB (s : ErrTree.State) : Bool :=
  (allGs s.tree).all (fun g => g.children.all (fun st => st.children.all (fun sg => sg.elements.all refShortB)))

theorem refNumsFit_of_b (s : ErrTree.State) (h : refNumsFitB s = true) : RefNumsFit s := by
  intro g hg st hst sg hsg e he r hr
  simp only [refNumsFitB, List.all_eq_true] at h
  have := h g hg st hst sg hsg e he
  simp only [refShortB, hr, decide_eq_true_eq] at this
  exact this

def sizesFitB (s : ErrTree.State) : Bool :=
  decide ((allGs s.tree).length < 10 ^ 6) && (allGs s.tree).all (fun g => decide ((gsLines fixed g).segs.length + 4 < 10 ^ 10))

theorem sizesFit_of_b (s : ErrTree.State) (h : sizesFitB s = true) : SizesFit s := by
  simp only [sizesFitB, Bool.and_eq_true, decide_eq_true_eq, List.all_eq_true] at h
  exact ⟨h.1, h.2⟩

end Pyx12Verif.C06R
