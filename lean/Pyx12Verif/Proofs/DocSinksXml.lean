/-
Helper lemmas for Props/DocSinks.lean, XML side.

(A) `x12xml_simple.seg` as it is now (`XmlG.…G`, the two `break`s) agrees with `Model/XmlOut.lean` wherever that model
    succeeds (`run_agrees`, `docEvents_agrees`): C08's theorems speak about the current code on their whole domain.
(B) The loop-stack theorems of C08 (`stack_invariant`, `seg_nesting`, `xml_balanced`) carried over to the current code on
    ALL inputs on which it does not raise — also those with more elements / sub-elements than the node defines, where
    `Model/XmlOut.lean` stops with `attribute`.  The proofs reuse C08's `transition_ok`, `Moves`, `Neutral`, `Ext`.
-/
import Pyx12Verif.Model.DocSinks
import Pyx12Verif.Props.C08

namespace Pyx12Verif.Doc.XmlG
open Pyx12Verif Pyx12Verif.Xml
open Pyx12Verif.Segment (SegObj Comp Got)

/-! ### (A) agreement with Model/XmlOut.lean -/

theorem subLoop_agrees : ∀ (vs ids : List Str) (w w' : W), subLoop ids vs w = .ok w' → subLoopG ids vs w = w'
  | [], ids, w, w' => by
    intro h; cases ids <;> (simp [subLoop] at h; subst h; simp [subLoopG])
  | v :: vs, [], w, w' => by intro h; simp [subLoop] at h
  | v :: vs, xid :: ids, w, w' => by
    intro h
    simp only [subLoop] at h
    simp only [subLoopG]
    exact subLoop_agrees vs ids _ _ h

theorem compOut_agrees (sid : Str) (subs : List Str) (c : Comp) (w w' : W) (h : compOut sid subs c w = .ok w') :
    compOutG sid subs c w = w' := by
  unfold compOut at h
  split at h
  · simp at h
  · rename_i w2 h2
    simp only [Except.ok.injEq] at h
    subst h
    unfold compOutG
    rw [subLoop_agrees _ _ _ _ h2]

theorem childOut_agrees (sid : Str) (seg : SegObj) (ref : Str) (c : ChildDef) (w w' : W) (g : Except Segment.Err Got)
    (h : childOut sid seg ref c w g = .ok w') : childOutG sid seg ref c w g = .ok w' := by
  unfold childOut at h
  unfold childOutG
  split at h
  · simp at h
  · simp at h
  · simp at h
  · split at h
    · simp only [Except.ok.injEq] at h; subst h; simp [*]
    · rename_i hne
      simp only [hne]
      split at h
      · simp only [Bool.false_eq_true, if_false]
        rw [compOut_agrees _ _ _ _ _ h]
      · simpa using h

theorem elemStep_agrees (node : Xml.SegDef) (seg : SegObj) (i : Nat) (w w' : W) (h : elemStep node seg i w = .ok w') :
    elemStepG node seg i w = .ok (some w') := by
  unfold elemStep at h
  unfold elemStepG
  split at h
  · simp at h
  · simp at h
  · rename_i c hc
    simp only [hc]
    split at h
    · rename_i hn
      simp only [Except.ok.injEq] at h; subst h; simp [hn]
    · rename_i hn
      simp only [hn, Bool.false_eq_true, if_false]
      rw [childOut_agrees _ _ _ _ _ _ _ h]

theorem elemLoop_agrees (node : Xml.SegDef) (seg : SegObj) : ∀ (n i : Nat) (w w' : W),
    elemLoop node seg n i w = .ok w' → elemLoopG node seg n i w = .ok w'
  | 0, i, w, w' => by intro h; simpa [elemLoop, elemLoopG] using h
  | n + 1, i, w, w' => by
    intro h
    simp only [elemLoop] at h
    split at h
    · simp at h
    · rename_i w2 h2
      simp only [elemLoopG, elemStep_agrees _ _ _ _ _ h2]
      exact elemLoop_agrees node seg n (i + 1) _ _ h

theorem segOut_agrees (node : Xml.SegDef) (seg : SegObj) (w w' : W) (h : segOut node seg w = .ok w') :
    segOutG node seg w = .ok w' := by
  unfold segOut at h
  unfold segOutG
  split at h
  · simp at h
  · rename_i w2 h2
    rw [elemLoop_agrees _ _ _ _ _ _ h2]
    exact h

theorem segStep_agrees (st : Xml.St) (x : Xml.Step) (r : Xml.St × List Ev) (h : segStep st x = .ok r) :
    segStepG st x = .ok r := by
  unfold segStep at h
  unfold segStepG
  split at h
  · simp at h
  · rename_i w hw
    split at h
    · simp at h
    · rename_i w' hw'
      simp only [hw, segOut_agrees _ _ _ _ hw']
      exact h

/-- wherever the pre-fix model of `seg()` succeeds, the current code does the same -/
theorem run_agrees : ∀ (steps : List Xml.Step) (st : Xml.St) (r : Xml.St × List Ev), run st steps = .ok r → runG st steps = .ok r
  | [], st, r => by intro h; simpa [run, runG] using h
  | x :: rest, st, r => by
    intro h
    simp only [run] at h
    split at h
    · simp at h
    · rename_i st1 evs1 h1
      split at h
      · simp at h
      · rename_i st2 evs2 h2
        simp only [runG, segStep_agrees _ _ _ h1, run_agrees rest st1 _ h2]
        exact h

theorem docEvents_agrees (steps : List Xml.Step) (evs : List Ev) (h : docEvents steps = .ok evs) :
    docEventsG steps = .ok evs := by
  unfold docEvents at h
  unfold docEventsG
  split at h
  · simp at h
  · rename_i st evs1 h1
    rw [run_agrees _ _ _ h1]
    exact h

/-! ### (B) the loop stack of the current code -/

theorem subLoopG_ext : ∀ (vs ids : List Str) (w : W), Ext w (subLoopG ids vs w)
  | [], ids, w => by cases ids <;> (simp only [subLoopG]; exact Ext.refl _)
  | v :: vs, [], w => by simp only [subLoopG]; exact Ext.refl _
  | v :: vs, xid :: ids, w => by
    simp only [subLoopG]
    exact (Ext.elem w tagSubele xid v).trans (subLoopG_ext vs ids _)

theorem compOutG_ext (sid : Str) (subs : List Str) (c : Comp) (w : W) : Ext w (compOutG sid subs c w) := by
  unfold compOutG
  obtain ⟨hs, evs, hn, ho⟩ := subLoopG_ext c.subs subs (w.push tagComp (some sid))
  generalize subLoopG subs c.subs (w.push tagComp (some sid)) = w2 at hs ho
  obtain ⟨st2, out2⟩ := w2
  simp only [W.push] at hs ho
  subst hs ho
  rw [pop_snoc]
  refine ⟨rfl, .start tagComp (some sid) :: evs ++ [.stop tagComp], hn.wrap tagComp (some sid) tagComp_ne_tagSeg, ?_⟩
  simp

theorem childOutG_ext (sid : Str) (seg : SegObj) (ref : Str) (c : ChildDef) (w w' : W) (g : Except Segment.Err Got)
    (h : childOutG sid seg ref c w g = .ok w') : Ext w w' := by
  unfold childOutG at h
  split at h
  · simp at h
  · simp at h
  · simp at h
  · split at h
    · simp only [Except.ok.injEq] at h; subst h; exact Ext.refl _
    · split at h
      · simp only [Except.ok.injEq] at h; subst h; exact compOutG_ext _ _ _ _
      · exact eleOut_ext _ _ _ _ h

/-- result of the element loop: same stack, neutral events -/
theorem elemLoopG_ext (node : Xml.SegDef) (seg : SegObj) : ∀ (n i : Nat) (w w' : W), elemLoopG node seg n i w = .ok w' → Ext w w'
  | 0, i, w, w' => by intro h; simp only [elemLoopG, Except.ok.injEq] at h; subst h; exact Ext.refl _
  | n + 1, i, w, w' => by
    intro h
    simp only [elemLoopG] at h
    split at h
    · simp at h
    · simp only [Except.ok.injEq] at h; subst h; exact Ext.refl _
    · rename_i w2 h2
      have e1 : Ext w w2 := by
        unfold elemStepG at h2
        split at h2
        · simp at h2
        · simp at h2
        · split at h2
          · simp only [Except.ok.injEq, Option.some.injEq] at h2; subst h2; exact Ext.refl _
          · split at h2
            · simp at h2
            · rename_i w3 h3
              simp only [Except.ok.injEq, Option.some.injEq] at h2; subst h2
              exact childOutG_ext _ _ _ _ _ _ _ h3
      exact e1.trans (elemLoopG_ext node seg n (i + 1) _ _ h)

theorem segOutG_ok (node : Xml.SegDef) (seg : SegObj) (s : List Str) (o : List Ev) (w' : W) (h : segOutG node seg ⟨s, o⟩ = .ok w') :
    w'.stack = s ∧ ∃ body, Neutral body ∧ w'.out = o ++ (.start tagSeg (some node.sid) :: body ++ [.stop tagSeg]) := by
  unfold segOutG at h
  split at h
  · simp at h
  · rename_i w2 h2
    simp only [Except.ok.injEq] at h
    subst h
    obtain ⟨hs, evs, hn, ho⟩ := elemLoopG_ext _ _ _ _ _ _ h2
    obtain ⟨st2, out2⟩ := w2
    simp only [W.push] at hs ho
    subst hs ho
    rw [pop_snoc]
    exact ⟨rfl, evs, hn, by simp⟩

theorem segStepG_ok (last : List Str) (x : Xml.Step) (hne : x.first = true → x.path ≠ []) (hag : Agree x.path last)
    (st' : Xml.St) (evs : List Ev) (h : segStepG ⟨last, tagRoot :: loopTags last.length⟩ x = .ok (st', evs)) :
    st' = ⟨x.path, tagRoot :: loopTags x.path.length⟩ ∧
    ∃ body, Neutral body ∧
      evs = transEvents last x.path x.first ++ (.start tagSeg (some x.node.sid) :: body ++ [.stop tagSeg]) := by
  unfold segStepG at h
  have ht := transition_ok [tagRoot] last x.path x.first [] hne hag
  simp only [List.singleton_append, List.nil_append] at ht
  simp only [ht] at h
  split at h
  · simp at h
  · rename_i w' hw
    simp only [Except.ok.injEq, Prod.mk.injEq] at h
    obtain ⟨hs, body, hn, ho⟩ := segOutG_ok _ _ _ _ _ hw
    obtain ⟨h1, h2⟩ := h
    subst h1 h2
    exact ⟨by rw [hs], body, hn, ho⟩

theorem segStepG_moves (last : List Str) (x : Xml.Step) (hne : x.first = true → x.path ≠ []) (hag : Agree x.path last)
    (st' : Xml.St) (evs : List Ev) (h : segStepG ⟨last, tagRoot :: loopTags last.length⟩ x = .ok (st', evs)) :
    st' = ⟨x.path, tagRoot :: loopTags x.path.length⟩ ∧ Moves evs (spell last) (spell x.path) [placeOf x] := by
  obtain ⟨hs, body, hn, he⟩ := segStepG_ok last x hne hag st' evs h
  refine ⟨hs, ?_⟩
  subst he
  have h1 := transEvents_moves last x.path x.first
  have h2 := Moves.segElem hn (spell x.path) (spell_ne_nil _) (some x.node.sid)
  simpa [placeOf] using h1.append h2

theorem runG_moves : ∀ (steps : List Xml.Step) (last : List Str), GoodFrom last steps → ∀ (st : Xml.St) (evs : List Ev),
    runG ⟨last, tagRoot :: loopTags last.length⟩ steps = .ok (st, evs) →
    st = ⟨lastPathOf last steps, tagRoot :: loopTags (lastPathOf last steps).length⟩ ∧
    Moves evs (spell last) (spell (lastPathOf last steps)) (steps.map placeOf)
  | [], last, _, st, evs => by
    intro h
    simp only [runG, Except.ok.injEq, Prod.mk.injEq] at h
    obtain ⟨rfl, rfl⟩ := h
    exact ⟨rfl, Moves.nil _⟩
  | x :: r, last, hg, st, evs => by
    intro h
    obtain ⟨hne, hag, hg'⟩ := hg
    simp only [runG] at h
    split at h
    · simp at h
    · rename_i st1 evs1 h1
      split at h
      · simp at h
      · rename_i st2 evs2 h2
        simp only [Except.ok.injEq, Prod.mk.injEq] at h
        obtain ⟨rfl, rfl⟩ := h
        obtain ⟨hs1, hm1⟩ := segStepG_moves last x hne hag st1 evs1 h1
        subst hs1
        obtain ⟨hs2, hm2⟩ := runG_moves r x.path hg' st2 evs2 h2
        exact ⟨hs2, by simpa [lastPathOf] using hm1.append hm2⟩

theorem docG_moves (steps : List Xml.Step) (hg : GoodFrom [] steps) (evs : List Ev) (h : docEventsG steps = .ok evs) :
    ∃ body, evs = .start tagRoot none :: (body ++ [.stop tagRoot]) ∧ Moves body (spell []) (spell []) (steps.map placeOf) := by
  unfold docEventsG at h
  split at h
  · simp at h
  · rename_i st evs1 h1
    simp only [Except.ok.injEq] at h
    subst h
    obtain ⟨hs, hm⟩ := runG_moves steps [] hg st evs1 (by simpa [initSt, loopTags] using h1)
    subst hs
    rw [delEvs_eq]
    refine ⟨evs1 ++ List.replicate (lastPathOf [] steps).length (.stop tagLoop), by simp [initEvs], ?_⟩
    have h2 := Moves.stops (lastPathOf [] steps) []
    simp only [List.nil_append] at h2
    simpa using hm.append h2

/-- C08 `seg_nesting` for the current code -/
theorem seg_nesting_G (steps : List Xml.Step) (hg : GoodFrom [] steps) (evs : List Ev) (h : docEventsG steps = .ok evs) :
    segCtxs [] evs = steps.map placeOf := by
  obtain ⟨body, rfl, hm⟩ := docG_moves steps hg evs h
  have := (hm [.stop tagRoot]).2.1
  have ne : tagRoot ≠ tagSeg := by decide
  simp only [segCtxs, ne, if_false, List.nil_append]
  rw [show [(tagRoot, (none : Option Str))] = spell [] from rfl, this]
  simp [segCtxs]

/-- C08 `xml_balanced` for the current code -/
theorem xml_balanced_G (steps : List Xml.Step) (hg : GoodFrom [] steps) (evs : List Ev) (h : docEventsG steps = .ok evs) :
    wellFormed evs = true := by
  obtain ⟨body, rfl, hm⟩ := docG_moves steps hg evs h
  have := (hm [.stop tagRoot]).2.2
  simp only [wellFormed]
  rw [show [(tagRoot, (none : Option Str))] = spell [] from rfl, this]
  simp [wfInside, ctxStep, spell]

/-- C08 `stack_invariant` for the current code -/
theorem stack_invariant_G (steps : List Xml.Step) (hg : GoodFrom [] steps) (st : Xml.St) (evs : List Ev)
    (h : runG initSt steps = .ok (st, evs)) :
    st.lastPath = lastPathOf [] steps ∧
    st.stack = tagRoot :: (lastPathOf [] steps).map (fun _ => tagLoop) ∧
    ctxAfter [] (initEvs ++ evs) = some (spell (lastPathOf [] steps)) := by
  obtain ⟨hs, hm⟩ := runG_moves steps [] hg st evs (by simpa [initSt, loopTags] using h)
  subst hs
  refine ⟨rfl, by simp [loopTags, List.map_const'], ?_⟩
  have := (hm []).1
  simp only [List.append_nil] at this
  simpa [initEvs, ctxAfter, ctxStep, spell] using this

end Pyx12Verif.Doc.XmlG
