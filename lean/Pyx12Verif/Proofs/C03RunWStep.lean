/-
C03 run level, generalised invariant: one step of the walker on the next generated segment
(fork of Proofs/WalkerStep.lean over the invariant of Proofs/C03RunWInv.lean).
-/
import Pyx12Verif.Proofs.C03RunWInv

namespace Pyx12Verif.WalkerGenW
open Pyx12Verif.MapSkel Pyx12Verif.Walker Pyx12Verif.WalkerGen

/-- levels strictly below `L` on the path to the current node are passed when they are complete and the segment
    enters something that may follow them -/
theorem dead_of_later {K : Consts} {root : List Node} (h : MapOK K root) {s : SegData} {cnt : Counter} {cur : List Nat}
    (hinv : Inv root cnt cur) {L : List Nat}
    (hcompl : ∀ p' i', L <+: p' → p' ≠ L → p' ++ [i'] <+: cur → Complete root cnt p' i')
    {t : SKey} (ht : hits s t)
    (hlater : ∀ p' i', L <+: p' → p' ≠ L → p' ++ [i'] <+: cur → t ∈ (laterFrom K [] [] root p').1) :
    ∀ p' i' ch', L <+: p' → p' ≠ L → p' ++ [i'] <+: cur → chAt root p' = some ch' →
      ∀ c ∈ ch', Passes K s cnt (keyAt root p') (posAt root (p' ++ [i'])) c := by
  intro p' i' ch' h1 h2 h3 hch' c hc
  obtain ⟨j, hj⟩ := getElem?_of_mem hc
  have hsat := level_all_sat hinv h3 (by
    intro p'' i'' h4 h5
    have h6 : L <+: p'' := List.IsPrefix.trans h1 (List.IsPrefix.trans (List.prefix_append _ _) h4)
    have h7 : p'' ≠ L := by
      intro e; subst e
      have l1 := List.IsPrefix.length_le h1
      have l2 := List.IsPrefix.length_le h4
      simp at l2; omega
    exact hcompl p'' i'' h6 h7 h5) (hcompl p' i' h1 h2 h3) hch' hj
  rcases hsat with hs | hp
  · right; exact ⟨follow_noHit h hch' hj (hlater p' i' h1 h2 h3) ht, hs⟩
  · left; exact hp

/-- the path child of the level strictly above a deeper level is a loop -/
theorem path_child_loop {root : List Node} {cnt : Counter} {cur : List Nat} (hinv : Inv root cnt cur)
    {q : List Nat} {i : Nat} (hq : q ++ [i] <+: cur) (hne : q ++ [i] ≠ cur) {ch : List Node} (hch : chAt root q = some ch) :
    ∃ lid pos u r w sub, ch[i]? = some (.loop lid pos u r w sub) ∧ chAt root (q ++ [i]) = some sub := by
  obtain ⟨i', hi'⟩ := prefix_extend hq hne
  obtain ⟨sub, hsub, _⟩ := hinv.lev (q ++ [i]) i' hi'
  obtain ⟨ch', lid, pos, u, r, w, hch', hci, _⟩ := nodeAt_of_chAt hsub
  rw [hch] at hch'; simp only [Option.some.injEq] at hch'; subst hch'
  exact ⟨lid, pos, u, r, w, sub, hci, hsub⟩

/-- the children before the target at the target's level are passed -/
theorem pre_passes {K : Consts} {root : List Node} (h : MapOK K root) {s : SegData} {cnt : Counter} {cur : List Nat}
    (hinv : Inv root cnt cur) {q : List Nat} {i j : Nat} (hr : ReadyAt root cnt cur q i j)
    {ch : List Node} (hch : chAt root q = some ch) {c : Node} (hc : ch[j]? = some c)
    {t : SKey} (hte : t ∈ entry K c) (ht : hits s t) :
    ∀ (j' : Nat) (c' : Node), j' < j → ch[j']? = some c' →
      Passes K s cnt (keyAt root q) (posAt root (q ++ [i])) c' := by
  obtain ⟨hqi, hij, hmid, hdeep⟩ := hr
  intro j' c' hj' hc'
  have hu := uAt_chAt (uAt_root h.un) hch
  have hnh := sib_noHit hu.sib hc' hc (by omega) hte ht
  obtain ⟨ch0, hch0, hl⟩ := hinv.lev q i hqi
  rw [hch] at hch0; simp only [Option.some.injEq] at hch0; subst hch0
  rcases Nat.lt_trichotomy j' i with hlt | heq | hgt
  · rcases hl.earlier j' c' hlt hc' with hs | ⟨_, hpos⟩
    · right; exact ⟨hnh, hs⟩
    · left
      obtain ⟨ci, hci⟩ := hl.idx
      simp only [posAt, nodeAt_snoc hch, hci]
      exact hpos ci hci
  · subst heq
    have hlen : (q ++ [j']).length ≤ cur.length := List.IsPrefix.length_le hqi
    right
    exact ⟨hnh, path_sat hinv (cur.length - (q.length + 1)) q j' hqi (by simp at hlen; omega) hdeep _ c' hch hc'⟩
  · right; exact ⟨hnh, hmid _ hch j' c' hgt hj' hc'⟩

/-- if a level strictly deeper than `q` is open, the target child `j` of `q` lies after the path child -/
theorem deeper_levels_later {K : Consts} {root : List Node} {cnt : Counter} {cur : List Nat}
    (hinv : Inv root cnt cur) {q : List Nat} {i j : Nat} (hqi : q ++ [i] <+: cur) (hij : i ≤ j)
    {ch : List Node} (hch : chAt root q = some ch) {c : Node} (hc : ch[j]? = some c)
    (hjne : i = j → q ++ [i] = cur) {t : SKey} (hte : t ∈ entry K c) :
    ∀ p' i', q <+: p' → p' ≠ q → p' ++ [i'] <+: cur → t ∈ (laterFrom K [] [] root p').1 := by
  intro p' i' h1 h2 h3
  have hlen1 := List.IsPrefix.length_le h1
  have hlenne : q.length ≠ p'.length := fun e => h2 (prefix_eq_of_length h1 e).symm
  have hqp : q ++ [i] <+: p' := by
    have hp'cur : p' <+: cur := List.IsPrefix.trans (List.prefix_append _ _) h3
    exact prefix_of_longer hqi hp'cur (by simp; omega)
  have hne : q ++ [i] ≠ cur := by
    intro e
    have l1 := List.IsPrefix.length_le h3
    have l2 := List.IsPrefix.length_le hqp
    rw [← e] at l1; simp at l1 l2; omega
  have hlt : i < j := by
    rcases Nat.lt_or_ge i j with h | h
    · exact h
    · exact absurd (hjne (by omega)) hne
  obtain ⟨lid, pos, u, r, w, sub, _, hsub⟩ := path_child_loop hinv hqi hne hch
  obtain ⟨rest, hrest⟩ := hqp
  rw [← hrest]
  exact laterFrom_later hch hc hlt rest hsub hte

/-- **step, segment target**: the generator emits an instance of the segment child `j` of the loop at `q` -/
theorem step_seg {K : Consts} {root : List Node} (rootId : Nat) (h : MapOK K root) {s : SegData} {cnt : Counter}
    {cur : List Nat} (hinv : Inv root cnt cur) {q : List Nat} {j : Nat} (hr : ReadyOn root cnt cur q j)
    {ch : List Node} (hch : chAt root q = some ch) {c : Node} (hc : ch[j]? = some c)
    (hseg : c.isSeg = true) (hm : isMatch K c s = true) (hu : c.usage ≠ 2)
    (hrep : c.rep = 0 ∨ cnt.get (keyAt root q ++ [c.comp]) < c.rep) (hnf : q = [] ∨ 0 < j ∨ firstIsLoop ch = true) :
    (walk K root rootId cnt cur s).node = some (q ++ [j]) ∧
    (walk K root rootId cnt cur s).st =
      { cnt := cnt.incr (keyAt root q ++ [c.comp]), pending := [], errs := [] } := by
  have hr' := hr
  obtain ⟨i, hqi, hij, hmid, hdeep⟩ := hr
  have hte : ∃ t, t ∈ entry K c ∧ hits s t := by
    cases c with
    | loop => simp [Node.isSeg] at hseg
    | seg a b c d e f g =>
      exact ⟨(a, segSKey K a g), by simp [entry], isMatch_hits K _ s hm (a, segSKey K a g) (by simp [nodeSKey])⟩
  obtain ⟨t, hte, ht⟩ := hte
  have hjne : i = j → q ++ [i] = cur := by
    intro e; subst e
    apply Classical.byContradiction
    intro hne
    obtain ⟨lid, pos, u, r, w, sub, hci, _⟩ := path_child_loop hinv hqi hne hch
    rw [hc] at hci; simp only [Option.some.injEq] at hci; subst hci
    simp [Node.isSeg] at hseg
  have hdead := dead_of_later h hinv (L := q)
    (fun p' i' h1 h2 h3 => hdeep p' i' (by
      have hp'cur : p' <+: cur := List.IsPrefix.trans (List.prefix_append _ _) h3
      have hlen1 := List.IsPrefix.length_le h1
      have hlenne : q.length ≠ p'.length := fun e => h2 (prefix_eq_of_length h1 e).symm
      exact prefix_of_longer hqi hp'cur (by simp; omega)) h3)
    ht (deeper_levels_later hinv hqi hij hch hc hjne hte)
  obtain ⟨loopNode, nid, oL, pops, hln, hfound⟩ := reach_level (K := K) (rootId := rootId) (s := s) hinv hqi hdead hch hc
    (pre_passes h hinv ⟨hqi, hij, hmid, hdeep⟩ hch hc hte ht)
  obtain ⟨ch0, hch0, hl⟩ := hinv.lev q i hqi
  rw [hch] at hch0; simp only [Option.some.injEq] at hch0; subst hch0
  obtain ⟨ci, hci⟩ := hl.idx
  have hwf := wfAt_chAt (wfAt_root h.wf) hch
  have hpos : ¬ c.pos < posAt root (q ++ [i]) := by
    have := posSorted_le hwf.pos hci hc hij
    simp only [posAt, nodeAt_snoc hch, hci]; omega
  have hres := scan_hit_seg (K := K) (s := s) q (keyAt root q) loopNode nid oL (posAt root (q ++ [i])) pops
    { cnt := cnt, pending := [], errs := [] } c (ch.drop (j + 1)) j hpos hseg hm ?_ rfl hu hrep
  · rw [hfound _ hres]; exact ⟨rfl, rfl⟩
  · rcases hln with ⟨_, hn⟩ | ⟨P0, a, ln, hq, hn, hnode, hlnch, hlnseg⟩
    · left; exact hn
    · right
      refine ⟨ln, hn, ?_⟩
      have hnf' : 0 < j ∨ firstIsLoop ch = true := by
        rcases hnf with e | e
        · subst e; simp at hq
        · exact e
      subst hq
      have hP0 : P0 ++ [a] <+: cur := List.IsPrefix.trans (List.prefix_append _ _) hqi
      obtain ⟨pch, hpch, hpl⟩ := hinv.lev P0 a hP0
      obtain ⟨pch', lid, pos, u, r, w, hpch', hai, hnode'⟩ := nodeAt_of_chAt hch
      rw [hpch] at hpch'; simp only [Option.some.injEq] at hpch'; subst hpch'
      rw [hnode] at hnode'; simp only [Option.some.injEq] at hnode'; subst hnode'
      have hkey : keyAt root (P0 ++ [a]) = keyAt root P0 ++ [(Node.loop lid pos u r w ch).comp] := keyAt_snoc hpch hai
      cases ch with
      | nil => simp at hc
      | cons first rest =>
        have hf0 : (first :: rest)[0]? = some first := by simp
        cases hfs : first.isSeg with
        | true =>
          have hj0 : 0 < j := by
            rcases hnf' with e | e
            · exact e
            · simp [firstIsLoop, hfs] at e
          apply isLoopMatch_false
          · rw [entry_loop_first hfs]
            exact sib_noHit (uAt_chAt (uAt_root h.un) hch).sib hf0 hc (by omega) hte ht
          · have h1 := hpl.here _ hai (by simp [counted, firstIsSeg, hfs])
            cases first with
            | loop => simp [Node.isSeg] at hfs
            | seg a1 a2 a3 a4 a5 a6 a7 =>
              simp only [satisfied, satHead, Bool.or_eq_true, bne_iff_ne, decide_eq_true_eq]
              right; rw [hkey]; exact h1
        | false =>
          exfalso
          have hwn := wfNode_at (wfAt_root h.wf) hpch hai
          simp only [wfNode, Bool.and_eq_true, transparentOK, firstIsLoop, hfs, Bool.not_false, Bool.not_true,
            Bool.false_or, bne_iff_ne] at hwn
          have := allLoops_get hwn.1.2.2 hc
          rw [hseg] at this; cases this

/-- entering the first-seg loop child `j` of `q` once the walk has got to level `q` -/
theorem step_loop_at {K : Consts} {root : List Node} (rootId : Nat) (h : MapOK K root) {s : SegData} {cnt : Counter}
    {cur : List Nat} (hinv : Inv root cnt cur) {q : List Nat} {j : Nat} (hr : ReadyOn root cnt cur q j)
    {ch : List Node} (hch : chAt root q = some ch) {lid pos u r : Nat} {w : Bool} {first : Node} {rest : List Node}
    (hc : ch[j]? = some (.loop lid pos u r w (first :: rest)))
    (hseg : first.isSeg = true) (hm : isMatch K first s = true) (hu : u ≠ 2)
    (hrep : r = 0 ∨ cnt.get (keyAt root q ++ [(lid, 0)]) < r)
    (hdead : ∀ p' i' ch', q <+: p' → p' ≠ q → p' ++ [i'] <+: cur → chAt root p' = some ch' →
      ∀ c ∈ ch', Passes K s cnt (keyAt root p') (posAt root (p' ++ [i'])) c) :
    (walk K root rootId cnt cur s).node = some (q ++ [j] ++ [0]) ∧
    (walk K root rootId cnt cur s).st =
      { cnt := enterCnt cnt (keyAt root q ++ [(lid, 0)]) first.comp, pending := [], errs := [] } := by
  have hr' := hr
  obtain ⟨i, hqi, hij, hmid, hdeep⟩ := hr
  have hte : ∃ t, t ∈ entry K (.loop lid pos u r w (first :: rest)) ∧ hits s t := by
    rw [entry_loop_first hseg]
    cases first with
    | loop => simp [Node.isSeg] at hseg
    | seg a b c d e f g =>
      exact ⟨(a, segSKey K a g), by simp [entry], isMatch_hits K _ s hm (a, segSKey K a g) (by simp [nodeSKey])⟩
  obtain ⟨t, hte, ht⟩ := hte
  obtain ⟨loopNode, nid, oL, pops, _, hfound⟩ := reach_level (K := K) (rootId := rootId) (s := s) hinv hqi hdead hch hc
    (pre_passes h hinv ⟨hqi, hij, hmid, hdeep⟩ hch hc hte ht)
  obtain ⟨ch0, hch0, hl⟩ := hinv.lev q i hqi
  rw [hch] at hch0; simp only [Option.some.injEq] at hch0; subst hch0
  obtain ⟨ci, hci⟩ := hl.idx
  have hwf := wfAt_chAt (wfAt_root h.wf) hch
  have hpos : ¬ (Node.loop lid pos u r w (first :: rest)).pos < posAt root (q ++ [i]) := by
    have := posSorted_le hwf.pos hci hc hij
    simp only [posAt, nodeAt_snoc hch, hci]; omega
  have hres := scan_hit_loop (K := K) (s := s) q (keyAt root q) loopNode nid oL (posAt root (q ++ [i])) pops
    { cnt := cnt, pending := [], errs := [] } _ (.loop lid pos u r w (first :: rest)) (ch.drop (j + 1)) j _ _ hpos rfl
    (isLoopMatch_first _ _ _ hseg hm)
    (gotoSegMatch_first (q ++ [j]) _ { cnt := cnt, pending := [], errs := [] } hseg hm rfl hu hrep)
  rw [hfound _ hres]; exact ⟨rfl, rfl⟩

/-- **step, loop target**: the generator starts an instance of the first-seg loop child `j` of the loop at `q`
    (a first instance, or a repeat after the previous instance is complete) -/
theorem step_loop {K : Consts} {root : List Node} (rootId : Nat) (h : MapOK K root) {s : SegData} {cnt : Counter}
    {cur : List Nat} (hinv : Inv root cnt cur) {q : List Nat} {j : Nat} (hr : ReadyOn root cnt cur q j)
    {ch : List Node} (hch : chAt root q = some ch) {lid pos u r : Nat} {w : Bool} {first : Node} {rest : List Node}
    (hc : ch[j]? = some (.loop lid pos u r w (first :: rest)))
    (hseg : first.isSeg = true) (hm : isMatch K first s = true) (hu : u ≠ 2)
    (hrep : r = 0 ∨ cnt.get (keyAt root q ++ [(lid, 0)]) < r) :
    (walk K root rootId cnt cur s).node = some (q ++ [j] ++ [0]) ∧
    (walk K root rootId cnt cur s).st =
      { cnt := enterCnt cnt (keyAt root q ++ [(lid, 0)]) first.comp, pending := [], errs := [] } := by
  have hr' := hr
  obtain ⟨i, hqi, hij, hmid, hdeep⟩ := hr
  have hte : ∃ t, t ∈ entry K first ∧ hits s t := by
    cases first with
    | loop => simp [Node.isSeg] at hseg
    | seg a b c d e f g =>
      exact ⟨(a, segSKey K a g), by simp [entry], isMatch_hits K _ s hm (a, segSKey K a g) (by simp [nodeSKey])⟩
  obtain ⟨t, hte1, ht⟩ := hte
  have hte : t ∈ entry K (.loop lid pos u r w (first :: rest)) := by rw [entry_loop_first hseg]; exact hte1
  have hcompl : ∀ p' i', q <+: p' → p' ≠ q → p' ++ [i'] <+: cur → Complete root cnt p' i' := by
    intro p' i' h1 h2 h3
    apply hdeep p' i' _ h3
    have hp'cur : p' <+: cur := List.IsPrefix.trans (List.prefix_append _ _) h3
    have hlen1 := List.IsPrefix.length_le h1
    have hlenne : q.length ≠ p'.length := fun e => h2 (prefix_eq_of_length h1 e).symm
    exact prefix_of_longer hqi hp'cur (by simp; omega)
  rcases Nat.lt_or_ge i j with hlt | hge
  · -- a first instance
    exact step_loop_at rootId h hinv hr' hch hc hseg hm hu hrep
      (dead_of_later h hinv hcompl ht (deeper_levels_later hinv hqi hij hch hc (by omega) hte))
  · -- a repeat: the walk is inside the previous instance
    have hij' : i = j := by omega
    subst hij'
    have hne : q ++ [i] ≠ cur := by
      intro e
      obtain ⟨nd, hnd, hns⟩ := hinv.seg
      rw [← e, nodeAt_snoc hch, hc] at hnd
      simp only [Option.some.injEq] at hnd; subst hnd; simp [Node.isSeg] at hns
    obtain ⟨i', hi'⟩ := prefix_extend hqi hne
    obtain ⟨sub, hsub, hlA⟩ := hinv.lev (q ++ [i]) i' hi'
    have hsub' : chAt root (q ++ [i]) = some (first :: rest) := by rw [chAt_snoc hch, hc]
    rw [hsub'] at hsub; simp only [Option.some.injEq] at hsub; subst hsub
    obtain ⟨ch0, hch0, hl⟩ := hinv.lev q i hqi
    rw [hch] at hch0; simp only [Option.some.injEq] at hch0; subst hch0
    have hkey : keyAt root (q ++ [i]) = keyAt root q ++ [(lid, 0)] := keyAt_snoc hch hc
    have hcount := hl.here _ hc (by simp [counted, firstIsSeg, hseg])
    simp only [Node.comp] at hcount
    have hr1 : r ≠ 1 := by omega
    have hself : t ∈ selfKeys K r (first :: rest) := by
      have : (firstIsSeg (first :: rest) && r != 1) = true := by simp [firstIsSeg, hseg, hr1]
      simp only [selfKeys, this, ↓reduceIte, firstSegKey]
      cases first with
      | loop => simp [Node.isSeg] at hseg
      | seg a b c d e f g => simpa [entry, nodeSKey] using hte1
    -- levels strictly below the previous instance
    have hdeadA : ∀ p' i'' ch', q ++ [i] <+: p' → p' ≠ q ++ [i] → p' ++ [i''] <+: cur → chAt root p' = some ch' →
        ∀ c ∈ ch', Passes K s cnt (keyAt root p') (posAt root (p' ++ [i''])) c := by
      apply dead_of_later h hinv (fun p' i'' h1 _ h3 => hdeep p' i'' h1 h3) ht
      intro p' i'' h1 h2 h3
      have hp'cur : p' <+: cur := List.IsPrefix.trans (List.prefix_append _ _) h3
      have hlen1 := List.IsPrefix.length_le h1
      have hlenne : (q ++ [i]).length ≠ p'.length := fun e => h2 (prefix_eq_of_length h1 e).symm
      have hAp : q ++ [i] ++ [i'] <+: p' := prefix_of_longer hi' hp'cur (by simp at hlen1 hlenne ⊢; omega)
      obtain ⟨chp, hchp, _⟩ := hinv.lev p' i'' h3
      obtain ⟨sub', hsub''⟩ := chAt_prefix hchp hAp
      obtain ⟨rest', hrest'⟩ := hAp
      rw [← hrest']
      exact laterFrom_self hch hc i' rest' hsub'' hself
    by_cases hfp : first.pos < posAt root (q ++ [i] ++ [i'])
    · -- the first segment lies before the current position: the scan of the instance ends, the parent re-enters it
      apply step_loop_at rootId h hinv hr' hch hc hseg hm hu hrep
      intro p' i'' ch' h1 h2 h3 h4 c hcm
      have hp'cur : p' <+: cur := List.IsPrefix.trans (List.prefix_append _ _) h3
      have hlen1 := List.IsPrefix.length_le h1
      have hlenne : q.length ≠ p'.length := fun e => h2 (prefix_eq_of_length h1 e).symm
      have hAp : q ++ [i] <+: p' := prefix_of_longer hqi hp'cur (by simp; omega)
      by_cases hpA : p' = q ++ [i]
      · subst hpA
        rw [hsub'] at h4; simp only [Option.some.injEq] at h4; subst h4
        have hii : i'' = i' := path_idx_unique h3 hi'
        subst hii
        obtain ⟨jc, hjc⟩ := getElem?_of_mem hcm
        cases jc with
        | zero => simp at hjc; subst hjc; left; exact hfp
        | succ n =>
          have hf0 : (first :: rest)[0]? = some first := by simp
          rcases level_all_sat hinv h3 (fun p'' i3 h5 h6 => hdeep p'' i3 (List.IsPrefix.trans (List.prefix_append _ _) h5) h6)
            (hdeep _ _ (List.prefix_refl _) h3) hsub' hjc with hs | hp
          · right
            exact ⟨sib_noHit (uAt_chAt (uAt_root h.un) hsub').sib hjc hf0 (by omega) hte1 ht, hs⟩
          · left; exact hp
      · exact hdeadA p' i'' ch' hAp hpA h3 h4 c hcm
    · -- the first segment is met again inside the instance
      obtain ⟨loopNode, nid, oL, pops, hln, hfound⟩ := reach_level (K := K) (rootId := rootId) (s := s) hinv hi' hdeadA
        hsub' (j := 0) (c := first) (by simp) (by intro j' c' hj'; omega)
      rcases hln with ⟨hnil, _⟩ | ⟨P0, a, ln, _, hn, hnode, _, _⟩
      · simp at hnil
      · rw [nodeAt_snoc hch, hc] at hnode
        simp only [Option.some.injEq] at hnode
        subst hn; subst hnode
        obtain ⟨pops', pushes', hres⟩ := scan_hit_repeat (K := K) (s := s) (q ++ [i]) (keyAt root (q ++ [i]))
          (.loop lid pos u r w (first :: rest)) nid oL (posAt root (q ++ [i] ++ [i'])) pops
          { cnt := cnt, pending := [], errs := [] } _ first (List.drop (0 + 1) (first :: rest)) 0 _ _ hfp hseg hm
          (isLoopMatch_first _ _ _ hseg hm)
          (gotoSegMatch_first (q ++ [i]) _ { cnt := cnt, pending := [], errs := [] } hseg hm rfl hu
            (by rw [hkey]; exact hrep))
        rw [hfound _ hres, hkey]; exact ⟨rfl, rfl⟩

end Pyx12Verif.WalkerGenW
