/-
C05 at pipeline level, error-tree side (1): the tree seen FLAT.

`err_handler` keeps index paths to its "current" interchange / group / set / segment node.  What the acknowledgement reads
off the tree is the list of all groups (`allG`) and of all sets (`allS`) in document order.  This file relates the two:

  * `sh2`      the skeleton of a tree (number of sets of every group of every interchange);
  * `GsLast`   the path `(i, g)` is the LAST group in document order, `StLast` the path `(i, g, k)` the LAST set;
  * under these conditions an update through the path is an update of the last entry of the flat list
    (`gsLast_extract`, `stLast_extract`), and an append through it is an append to the flat list;
  * updates that do not touch what a projection reads leave the projected flat list alone (`allG_map_modGs`, …).
-/
import Pyx12Verif.Proofs.ErrTreeRun

namespace Pyx12Verif.DocC05
open Pyx12Verif.ErrTree

/-! ### lists -/

theorem modNth_at {α : Type} (f : α → α) (l1 : List α) (x : α) (l2 : List α) :
    ∀ n, n = l1.length → modNth f (l1 ++ x :: l2) n = l1 ++ f x :: l2 := by
  induction l1 with
  | nil => intro n h; subst h; rfl
  | cons a r ih =>
    intro n h
    subst h
    simp only [List.cons_append, List.length_cons, modNth]
    rw [ih r.length rfl]

theorem map_modNth {α β : Type} (h : α → β) (F : α → α) (F' : β → β) (hc : ∀ x, h (F x) = F' (h x)) :
    ∀ (l : List α) (n : Nat), (modNth F l n).map h = modNth F' (l.map h) n := by
  intro l
  induction l with
  | nil => intro n; rfl
  | cons x xs ih =>
    intro n
    cases n with
    | zero => simp [modNth, hc]
    | succ k => simp [modNth, ih]

theorem map_modNth_same {α β : Type} (h : α → β) (F : α → α) (hc : ∀ x, h (F x) = h x) :
    ∀ (l : List α) (n : Nat), (modNth F l n).map h = l.map h := by
  intro l
  induction l with
  | nil => intro n; rfl
  | cons x xs ih =>
    intro n
    cases n with
    | zero => simp [modNth, hc]
    | succ k => simp [modNth, ih]

theorem modLast_snoc {α : Type} (f : α → α) : ∀ (l : List α) (x : α), modLast f (l ++ [x]) = l ++ [f x] := by
  intro l
  induction l with
  | nil => intro x; rfl
  | cons a r ih =>
    intro x
    cases r with
    | nil => rfl
    | cons b r' =>
      simp only [List.cons_append, modLast]
      have := ih x
      simp only [List.cons_append] at this
      rw [this]

theorem modLast_nil {α : Type} (f : α → α) : modLast f ([] : List α) = [] := rfl

theorem snoc_cases {α : Type} (l : List α) : l = [] ∨ ∃ r x, l = r ++ [x] := by
  induction l with
  | nil => exact Or.inl rfl
  | cons a r ih =>
    right
    rcases ih with rfl | ⟨r', x, rfl⟩
    · exact ⟨[], a, rfl⟩
    · exact ⟨a :: r', x, rfl⟩

/-! ### flat lists of groups and sets -/

/-- all groups in document order (`Ack.allGs`) -/
def allG : Tree → List Gs
  | [] => []
  | a :: r => a.children ++ allG r

def stsOf : List Gs → List St
  | [] => []
  | g :: r => g.children ++ stsOf r

/-- all sets in document order -/
def allS (t : Tree) : List St := stsOf (allG t)

theorem allG_append (a b : Tree) : allG (a ++ b) = allG a ++ allG b := by
  induction a with
  | nil => rfl
  | cons x r ih => simp [allG, ih]

theorem stsOf_append (a b : List Gs) : stsOf (a ++ b) = stsOf a ++ stsOf b := by
  induction a with
  | nil => rfl
  | cons x r ih => simp [stsOf, ih]

theorem allG_childless (t : Tree) (h : ∀ b ∈ t, b.children = []) : allG t = [] := by
  induction t with
  | nil => rfl
  | cons a r ih =>
    simp only [allG, h a (by simp), List.nil_append]
    exact ih (fun b hb => h b (by simp [hb]))

theorem stsOf_childless (l : List Gs) (h : ∀ b ∈ l, b.children = []) : stsOf l = [] := by
  induction l with
  | nil => rfl
  | cons a r ih =>
    simp only [stsOf, h a (by simp), List.nil_append]
    exact ih (fun b hb => h b (by simp [hb]))

/-! ### skeleton -/

def shGs (g : Gs) : Nat := g.children.length
def shIsa (a : Isa) : List Nat := a.children.map shGs
/-- number of sets of every group of every interchange -/
def sh2 (t : Tree) : List (List Nat) := t.map shIsa

theorem sh2_modIsa (t : Tree) (i : Nat) (f : Isa → Isa) (hf : ∀ a, (f a).children = a.children) :
    sh2 (modIsa t i f) = sh2 t := by
  unfold sh2 modIsa
  exact map_modNth_same shIsa f (fun a => by simp [shIsa, hf]) t i

theorem sh2_modGs (t : Tree) (i g : Nat) (f : Gs → Gs) (hf : ∀ x, (f x).children.length = x.children.length) :
    sh2 (modGs t i g f) = sh2 t := by
  unfold sh2 modGs modIsa
  apply map_modNth_same
  intro a
  simp only [shIsa]
  exact map_modNth_same shGs f (fun x => by simp [shGs, hf]) a.children g

theorem modNth_length' {α : Type} (f : α → α) (l : List α) (n : Nat) : (modNth f l n).length = l.length :=
  modNth_length f l n

theorem sh2_modSt (t : Tree) (i g k : Nat) (f : St → St) : sh2 (modSt t i g k f) = sh2 t := by
  unfold modSt
  apply sh2_modGs
  intro x
  simp [modNth_length]

theorem sh2_modSeg (t : Tree) (i g k j : Nat) (f : Seg → Seg) : sh2 (modSeg t i g k j f) = sh2 t := by
  unfold modSeg
  exact sh2_modSt t i g k _

/-! ### "last in document order" -/

/-- `(i, g)` is the last group; `m` = number of its sets -/
def GsLast (s : List (List Nat)) (i g m : Nat) : Prop :=
  ∃ K1 C1 K2, s = K1 ++ (C1 ++ [m]) :: K2 ∧ K1.length = i ∧ C1.length = g ∧ ∀ C ∈ K2, C = []

/-- `(i, g, k)` is the last set -/
def StLast (s : List (List Nat)) (i g k : Nat) : Prop :=
  ∃ K1 C1 C2 K2, s = K1 ++ (C1 ++ (k + 1) :: C2) :: K2 ∧ K1.length = i ∧ C1.length = g ∧
    (∀ c ∈ C2, c = 0) ∧ ∀ C ∈ K2, ∀ c ∈ C, c = 0

theorem GsLast.snoc_nil {s : List (List Nat)} {i g m : Nat} (h : GsLast s i g m) : GsLast (s ++ [[]]) i g m := by
  obtain ⟨K1, C1, K2, rfl, h1, h2, h3⟩ := h
  refine ⟨K1, C1, K2 ++ [[]], by simp, h1, h2, ?_⟩
  intro C hC
  simp only [List.mem_append, List.mem_singleton] at hC
  rcases hC with hC | rfl
  · exact h3 C hC
  · rfl

theorem StLast.snoc_nil {s : List (List Nat)} {i g k : Nat} (h : StLast s i g k) : StLast (s ++ [[]]) i g k := by
  obtain ⟨K1, C1, C2, K2, rfl, h1, h2, h3, h4⟩ := h
  refine ⟨K1, C1, C2, K2 ++ [[]], by simp, h1, h2, h3, ?_⟩
  intro C hC c hc
  simp only [List.mem_append, List.mem_singleton] at hC
  rcases hC with hC | rfl
  · exact h4 C hC c hc
  · cases hc

/-- a new (empty) group appended to the last interchange -/
theorem StLast.addGs {s : List (List Nat)} {i g k : Nat} (h : StLast s i g k) (j : Nat) (hj : j + 1 = s.length) :
    StLast (modNth (fun L => L ++ [0]) s j) i g k := by
  obtain ⟨K1, C1, C2, K2, rfl, h1, h2, h3, h4⟩ := h
  rcases snoc_cases K2 with rfl | ⟨K2', Y, rfl⟩
  · have hj' : j = K1.length := by simp at hj; omega
    rw [modNth_at _ K1 _ [] j hj']
    refine ⟨K1, C1, C2 ++ [0], [], by simp, h1, h2, ?_, by simp⟩
    intro c hc
    simp only [List.mem_append, List.mem_singleton] at hc
    rcases hc with hc | rfl
    · exact h3 c hc
    · rfl
  · have e : K1 ++ (C1 ++ (k + 1) :: C2) :: (K2' ++ [Y]) = (K1 ++ (C1 ++ (k + 1) :: C2) :: K2') ++ Y :: [] := by simp
    have hj' : j = (K1 ++ (C1 ++ (k + 1) :: C2) :: K2').length := by
      rw [e] at hj; simp at hj ⊢; omega
    rw [e, modNth_at _ _ Y [] j hj']
    refine ⟨K1, C1, C2, K2' ++ [Y ++ [0]], by simp, h1, h2, h3, ?_⟩
    intro C hC c hc
    simp only [List.mem_append, List.mem_singleton] at hC
    rcases hC with hC | rfl
    · exact h4 C (by simp [hC]) c hc
    · simp only [List.mem_append, List.mem_singleton] at hc
      rcases hc with hc | rfl
      · exact h4 Y (by simp) c hc
      · rfl

/-! ### extraction: from the skeleton to the tree -/

theorem map_eq_snoc {α β : Type} (f : α → β) (l : List α) (A : List β) (b : β) (h : l.map f = A ++ [b]) :
    ∃ l1 x, l = l1 ++ [x] ∧ l1.map f = A ∧ f x = b := by
  obtain ⟨l1, l2, rfl, e1, e2⟩ := List.map_eq_append_iff.1 h
  obtain ⟨x, l3, rfl, e3, e4⟩ := List.map_eq_cons_iff.1 e2
  have : l3 = [] := by simpa using e4
  subst this
  exact ⟨l1, x, rfl, e1, e3⟩

theorem map_eq_mid {α β : Type} (f : α → β) (l : List α) (A : List β) (b : β) (C : List β) (h : l.map f = A ++ b :: C) :
    ∃ l1 x l2, l = l1 ++ x :: l2 ∧ l1.map f = A ∧ f x = b ∧ l2.map f = C := by
  obtain ⟨l1, l2, rfl, e1, e2⟩ := List.map_eq_append_iff.1 h
  obtain ⟨x, l3, rfl, e3, e4⟩ := List.map_eq_cons_iff.1 e2
  exact ⟨l1, x, l3, rfl, e1, e3, e4⟩

/-- the last interchange -/
theorem isaLast_extract (t : Tree) (i : Nat) (h : i + 1 = t.length) :
    ∃ T a, t = T ++ [a] ∧ T.length = i ∧ ∀ f, modIsa t i f = T ++ [f a] := by
  rcases snoc_cases t with rfl | ⟨T, a, rfl⟩
  · simp at h
  · have hi : i = T.length := by simp at h; omega
    exact ⟨T, a, rfl, hi.symm, fun f => modNth_at f T a [] i hi⟩

theorem childless_of_sh {t2 : Tree} {K2 : List (List Nat)} (e : t2.map shIsa = K2) (h : ∀ C ∈ K2, C = []) :
    ∀ b ∈ t2, b.children = [] := by
  intro b hb
  have : shIsa b ∈ K2 := by rw [← e]; exact List.mem_map_of_mem hb
  have := h _ this
  simpa [shIsa] using this

/-- the last group: an update through its path is an update of the last entry of the flat list -/
theorem gsLast_extract (t : Tree) (i g m : Nat) (h : GsLast (sh2 t) i g m) :
    ∃ G x, allG t = G ++ [x] ∧ getGs t i g = some x ∧ x.children.length = m ∧
      ∀ F, allG (modGs t i g F) = G ++ [F x] := by
  obtain ⟨K1, C1, K2, e, h1, h2, h3⟩ := h
  obtain ⟨t1, a, t2, rfl, e1, e2, e3⟩ := map_eq_mid shIsa t K1 _ K2 e
  obtain ⟨c1, x, e4, e5, e6⟩ := map_eq_snoc shGs a.children C1 m e2
  have hl1 : t1.length = i := by rw [← h1, ← e1]; simp
  have hl2 : c1.length = g := by rw [← h2, ← e5]; simp
  have hch := childless_of_sh e3 h3
  refine ⟨allG t1 ++ c1, x, ?_, ?_, e6, ?_⟩
  · rw [allG_append]
    simp [allG, e4, allG_childless t2 hch]
  · unfold getGs
    have : (t1 ++ a :: t2)[i]? = some a := by rw [← hl1]; simp
    rw [this]
    simp only [Option.bind_some, e4]
    rw [← hl2]; simp
  · intro F
    unfold modGs modIsa
    rw [modNth_at _ t1 a t2 i hl1.symm, allG_append]
    simp only [allG, e4]
    rw [modNth_at F c1 x [] g hl2.symm, allG_childless t2 hch]
    simp

/-- sets of the flat list: everything before the last group, then the last group's own -/
theorem allS_of_allG (t : Tree) (G : List Gs) (x : Gs) (h : allG t = G ++ [x]) : allS t = stsOf G ++ x.children := by
  unfold allS
  rw [h, stsOf_append]
  simp [stsOf]

/-- the last set -/
theorem stLast_extract (t : Tree) (i g k : Nat) (h : StLast (sh2 t) i g k) :
    ∃ S st, allS t = S ++ [st] ∧ getSt t i g k = some st ∧ ∀ f, allS (modSt t i g k f) = S ++ [f st] := by
  obtain ⟨K1, C1, C2, K2, e, h1, h2, h3, h4⟩ := h
  obtain ⟨t1, a, t2, rfl, e1, e2, e3⟩ := map_eq_mid shIsa t K1 _ K2 e
  obtain ⟨c1, x, c2, e4, e5, e6, e7⟩ := map_eq_mid shGs a.children C1 (k + 1) C2 e2
  have hl1 : t1.length = i := by rw [← h1, ← e1]; simp
  have hl2 : c1.length = g := by rw [← h2, ← e5]; simp
  have hx : x.children.length = k + 1 := e6
  obtain ⟨k1, st, e8⟩ : ∃ k1 st, x.children = k1 ++ [st] := by
    rcases snoc_cases x.children with h0 | h0
    · rw [h0] at hx; simp at hx
    · exact h0
  have hl3 : k1.length = k := by rw [e8] at hx; simp at hx; omega
  have hc2 : ∀ y ∈ c2, y.children = [] := by
    intro y hy
    have : shGs y ∈ C2 := by rw [← e7]; exact List.mem_map_of_mem hy
    have := h3 _ this
    simpa [shGs] using this
  have ht2 : ∀ b ∈ t2, ∀ y ∈ b.children, y.children = [] := by
    intro b hb y hy
    have h5 : shIsa b ∈ K2 := by rw [← e3]; exact List.mem_map_of_mem hb
    have h6 : shGs y ∈ shIsa b := List.mem_map_of_mem hy
    have := h4 _ h5 _ h6
    simpa [shGs] using this
  have hs2 : stsOf (allG t2) = [] := by
    apply stsOf_childless
    intro y hy
    clear e e3 h4
    induction t2 with
    | nil => simp [allG] at hy
    | cons b r ih =>
      simp only [allG, List.mem_append] at hy
      rcases hy with hy | hy
      · exact ht2 b (by simp) y hy
      · exact ih (fun b' hb' => ht2 b' (by simp [hb'])) hy
  refine ⟨stsOf (allG t1) ++ stsOf c1 ++ k1, st, ?_, ?_, ?_⟩
  · unfold allS
    rw [allG_append]
    simp only [allG, e4, stsOf_append, stsOf, e8, hs2, stsOf_childless c2 hc2]
    simp
  · unfold getSt getGs
    have : (t1 ++ a :: t2)[i]? = some a := by rw [← hl1]; simp
    rw [this]
    simp only [Option.bind_some, e4]
    have : (c1 ++ x :: c2)[g]? = some x := by rw [← hl2]; simp
    rw [this]
    simp only [Option.bind_some, e8]
    rw [← hl3]; simp
  · intro f
    unfold allS modSt modGs modIsa
    rw [modNth_at _ t1 a t2 i hl1.symm, allG_append]
    simp only [allG, e4]
    rw [modNth_at _ c1 x c2 g hl2.symm]
    simp only [stsOf_append, stsOf, e8]
    rw [modNth_at f k1 st [] k hl3.symm, hs2, stsOf_childless c2 hc2]
    simp

/-! ### updates a projection does not see -/

theorem allG_modIsa_children (t : Tree) (i : Nat) (f : Isa → Isa) (hf : ∀ a, (f a).children = a.children) :
    allG (modIsa t i f) = allG t := by
  unfold modIsa
  induction t generalizing i with
  | nil => rfl
  | cons a r ih =>
    cases i with
    | zero => simp [modNth, allG, hf]
    | succ n => simp [modNth, allG, ih]

theorem allG_map_modGs {β : Type} (p : Gs → β) (t : Tree) (i g : Nat) (F : Gs → Gs) (hF : ∀ x, p (F x) = p x) :
    (allG (modGs t i g F)).map p = (allG t).map p := by
  unfold modGs modIsa
  induction t generalizing i with
  | nil => rfl
  | cons a r ih =>
    cases i with
    | zero => simp [modNth, allG, map_modNth_same p F hF]
    | succ n => simp only [modNth, allG, List.map_append, ih]

theorem stsOf_modNth_children (l : List Gs) (g : Nat) (F : Gs → Gs) (hF : ∀ x, (F x).children = x.children) :
    stsOf (modNth F l g) = stsOf l := by
  induction l generalizing g with
  | nil => rfl
  | cons a r ih =>
    cases g with
    | zero => simp [modNth, stsOf, hF]
    | succ n => simp [modNth, stsOf, ih]

theorem allS_modGs_children (t : Tree) (i g : Nat) (F : Gs → Gs) (hF : ∀ x, (F x).children = x.children) :
    allS (modGs t i g F) = allS t := by
  unfold allS modGs modIsa
  induction t generalizing i with
  | nil => rfl
  | cons a r ih =>
    cases i with
    | zero => simp [modNth, allG, stsOf_append, stsOf_modNth_children _ _ F hF]
    | succ n => simp only [modNth, allG, stsOf_append, ih]

theorem stsOf_map_modNth {β : Type} (q : St → β) (l : List Gs) (g k : Nat) (f : St → St) (hf : ∀ s, q (f s) = q s) :
    (stsOf (modNth (fun x => { x with children := modNth f x.children k }) l g)).map q = (stsOf l).map q := by
  induction l generalizing g with
  | nil => rfl
  | cons a r ih =>
    cases g with
    | zero => simp [modNth, stsOf, map_modNth_same q f hf]
    | succ n => simp only [modNth, stsOf, List.map_append, ih]

theorem allS_map_modSt {β : Type} (q : St → β) (t : Tree) (i g k : Nat) (f : St → St) (hf : ∀ s, q (f s) = q s) :
    (allS (modSt t i g k f)).map q = (allS t).map q := by
  unfold allS modSt modGs modIsa
  induction t generalizing i with
  | nil => rfl
  | cons a r ih =>
    cases i with
    | zero => simp only [modNth, allG, stsOf_append, List.map_append, stsOf_map_modNth q _ g k f hf]
    | succ n => simp only [modNth, allG, stsOf_append, List.map_append, ih]

theorem allS_modIsa_children (t : Tree) (i : Nat) (f : Isa → Isa) (hf : ∀ a, (f a).children = a.children) :
    allS (modIsa t i f) = allS t := by
  unfold allS
  rw [allG_modIsa_children t i f hf]

/-- interchange-level error lists -/
def isaErrs (t : Tree) : List Nat := t.map (fun a => a.errors.length)

end Pyx12Verif.DocC05
