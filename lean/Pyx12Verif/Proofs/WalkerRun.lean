/-
C02 helper lemmas, part 7: running the walker over a whole derivation (no transparent loops: Stage 2).
-/
import Pyx12Verif.Proofs.WalkerPres

namespace Pyx12Verif.WalkerGen
open Pyx12Verif.MapSkel Pyx12Verif.Walker

/-! ### runs -/

theorem runOK_append (K : Consts) (root : List Node) (rootId : Nat) : ∀ (o1 o2 : List Emit) (cnt : Counter) (cur : List Nat),
    RunOK K root rootId cnt cur (o1 ++ o2) ↔
      RunOK K root rootId cnt cur o1 ∧ RunOK K root rootId (runCnt K root rootId cnt cur o1) (runCur cur o1) o2
  | [], o2, cnt, cur => by simp [RunOK, runCnt, runCur]
  | e :: r, o2, cnt, cur => by
    simp only [List.cons_append, RunOK, runCnt, runCur, runOK_append K root rootId r o2]
    constructor
    · rintro ⟨h1, h2, h3, h4, h5⟩; exact ⟨⟨h1, h2, h3, h4⟩, h5⟩
    · rintro ⟨⟨h1, h2, h3, h4⟩, h5⟩; exact ⟨h1, h2, h3, h4, h5⟩

theorem runCnt_append (K : Consts) (root : List Node) (rootId : Nat) : ∀ (o1 o2 : List Emit) (cnt : Counter) (cur : List Nat),
    runCnt K root rootId cnt cur (o1 ++ o2) =
      runCnt K root rootId (runCnt K root rootId cnt cur o1) (runCur cur o1) o2
  | [], o2, cnt, cur => by simp [runCnt, runCur]
  | e :: r, o2, cnt, cur => by simp only [List.cons_append, runCnt, runCur, runCnt_append K root rootId r o2]

theorem runCur_append : ∀ (o1 o2 : List Emit) (cur : List Nat), runCur cur (o1 ++ o2) = runCur (runCur cur o1) o2
  | [], o2, cur => by simp [runCur]
  | e :: r, o2, cur => by simp only [List.cons_append, runCur, runCur_append r o2]

/-- counters agree except strictly below `key` -/
def StrictOff (cnt cnt' : Counter) (key : PathKey) : Prop :=
  ∀ k', ¬ (key <+: k' ∧ k' ≠ key) → cnt'.get k' = cnt.get k'

theorem StrictOff.refl (cnt : Counter) (key : PathKey) : StrictOff cnt cnt key := fun _ _ => rfl

theorem StrictOff.trans {a b c : Counter} {key : PathKey} (h1 : StrictOff a b key) (h2 : StrictOff b c key) :
    StrictOff a c key := fun k' hk' => by rw [h2 k' hk', h1 k' hk']

theorem StrictOff.agree {a b : Counter} {key : PathKey} (h : StrictOff a b key) : AgreeOff a b key :=
  fun k' hk' => h k' (fun hh => hk' hh.1)

theorem AgreeOff.strict {a b : Counter} {key : PathKey} {x : Nat × Nat} (h : AgreeOff a b (key ++ [x])) :
    StrictOff a b key := by
  intro k' hk'
  apply h k'
  intro hh
  apply hk'
  refine ⟨List.IsPrefix.trans (List.prefix_append _ _) hh, ?_⟩
  intro e; subst e
  have := List.IsPrefix.length_le hh; simp at this; omega

/-! ### no transparent loops -/

theorem noWrapperList_get {ch : List Node} (h : noWrapperList ch = true) {i : Nat} {c : Node} (hc : ch[i]? = some c) :
    noWrapperNode c = true := by
  induction ch generalizing i with
  | nil => simp at hc
  | cons a r ih =>
    simp only [noWrapperList, Bool.and_eq_true] at h
    cases i with
    | zero => simp at hc; subst hc; exact h.1
    | succ n => simp at hc; exact ih h.2 hc

theorem noWrapper_chAt {root : List Node} (h : noWrapperList root = true) {p : List Nat} {ch : List Node}
    (hc : chAt root p = some ch) : noWrapperList ch = true := by
  induction p generalizing root with
  | nil => simp only [chAt, Option.some.injEq] at hc; subst hc; exact h
  | cons i r ih =>
    simp only [chAt] at hc
    split at hc
    · rename_i lid pos u rep w sub heq
      have := noWrapperList_get h heq
      simp only [noWrapperNode, Bool.and_eq_true] at this
      exact ih this.2 hc
    · cases hc

/-! ### the simulation, by recursion over the derivation -/

/-- the run over `out` from `(cnt, cur)` is accepted, and the state after it satisfies the invariant and `P` -/
def After (K : Consts) (root : List Node) (rootId : Nat) (cnt : Counter) (cur : List Nat) (out : List Emit)
    (P : Counter → List Nat → Prop) : Prop :=
  RunOK K root rootId cnt cur out ∧ Inv root (runCnt K root rootId cnt cur out) (runCur cur out) ∧
    P (runCnt K root rootId cnt cur out) (runCur cur out)

theorem After.nil {K : Consts} {root : List Node} {rootId : Nat} {cnt : Counter} {cur : List Nat}
    {P : Counter → List Nat → Prop} (hinv : Inv root cnt cur) (hp : P cnt cur) : After K root rootId cnt cur [] P :=
  ⟨trivial, hinv, hp⟩

theorem After.seq {K : Consts} {root : List Node} {rootId : Nat} {cnt : Counter} {cur : List Nat} {o1 o2 : List Emit}
    {P : Counter → List Nat → Prop} {Q : Counter → Counter → List Nat → Prop} (h1 : After K root rootId cnt cur o1 P)
    (h2 : ∀ cnt1 cur1, Inv root cnt1 cur1 → P cnt1 cur1 → After K root rootId cnt1 cur1 o2 (Q cnt1)) :
    After K root rootId cnt cur (o1 ++ o2) (Q (runCnt K root rootId cnt cur o1)) := by
  obtain ⟨r1, i1, p1⟩ := h1
  obtain ⟨r2, i2, p2⟩ := h2 _ _ i1 p1
  refine ⟨(runOK_append K root rootId o1 o2 cnt cur).mpr ⟨r1, r2⟩, ?_, ?_⟩
  · rw [runCnt_append, runCur_append]; exact i2
  · rw [runCnt_append, runCur_append]; exact p2

theorem After.mono {K : Consts} {root : List Node} {rootId : Nat} {cnt : Counter} {cur : List Nat} {o : List Emit}
    {P Q : Counter → List Nat → Prop} (h : After K root rootId cnt cur o P) (hpq : ∀ a b, P a b → Q a b) :
    After K root rootId cnt cur o Q := ⟨h.1, h.2.1, hpq _ _ h.2.2⟩

theorem After.step {K : Consts} {root : List Node} {rootId : Nat} {cnt : Counter} {cur : List Nat} {ip : List Nat}
    {s : SegData} {cnt1 : Counter}
    (hn : (walk K root rootId cnt cur s).node = some ip)
    (hs : (walk K root rootId cnt cur s).st = { cnt := cnt1, pending := [], errs := [] })
    {o : List Emit} {P : Counter → List Nat → Prop} (h : After K root rootId cnt1 ip o P) :
    After K root rootId cnt cur ((ip, s) :: o) P := by
  obtain ⟨r, i, p⟩ := h
  have hc : (walk K root rootId cnt cur s).st.cnt = cnt1 := by rw [hs]
  refine ⟨?_, ?_, ?_⟩
  · simp only [RunOK, hn, hs, true_and]; exact r
  · simp only [runCnt, runCur, hc]; exact i
  · simp only [runCnt, runCur, hc]; exact p

theorem satisfied_counted {cnt : Counter} {key : PathKey} {c : Node} (hc : counted c = true)
    (h : c.usage = 0 → 1 ≤ cnt.get key) : satisfied cnt key c = true := by
  cases c with
  | seg a b c d e f g =>
    simp only [Node.usage] at h
    simp only [satisfied, Bool.or_eq_true, bne_iff_ne, decide_eq_true_eq]
    by_cases hd : d = 0
    · right; exact h hd
    · left; exact hd
  | loop l p u r w ch =>
    simp only [Node.usage] at h
    cases ch with
    | nil => simp [counted, firstIsSeg] at hc
    | cons first rest =>
      cases first with
      | loop => simp [counted, firstIsSeg, Node.isSeg] at hc
      | seg a b c d e f g =>
        simp only [satisfied, satHead, Bool.or_eq_true, bne_iff_ne, decide_eq_true_eq]
        by_cases hd : u = 0
        · right; exact h hd
        · left; exact hd

theorem drop_cons_get {α : Type} {l : List α} {j : Nat} {c : α} {r : List α} (h : l.drop j = c :: r) :
    l[j]? = some c ∧ l.drop (j + 1) = r := by
  constructor
  · have := congrArg (fun x => x[0]?) h
    simpa [List.getElem?_drop] using this
  · have := congrArg (fun x => x.drop 1) h
    simpa [List.drop_drop, Nat.add_comm] using this

set_option linter.unusedSectionVars false
section
variable {K : Consts} {root : List Node} (rootId : Nat) (h : MapOK K root) (hnw : noWrapperList root = true)
include h hnw

mutual
theorem p_one : ∀ {ip : List Nat} {c : Node} {out : List Emit}, GenOne K ip c out →
    ∀ (q : List Nat) (j i : Nat) (ch : List Node) (cnt : Counter) (cur : List Nat),
    ip = q ++ [j] → chAt root q = some ch → ch[j]? = some c → Inv root cnt cur → ReadyAt root cnt cur q i j →
    c.usage ≠ 2 → (c.rep = 0 ∨ cnt.get (keyAt root q ++ [c.comp]) < c.rep) → (q = [] ∨ 0 < j ∨ firstIsLoop ch = true) →
    After K root rootId cnt cur out (fun cnt' cur' =>
      ReadyAt root cnt' cur' q j j ∧ AgreeOff cnt cnt' (keyAt root q ++ [c.comp]) ∧
      cnt'.get (keyAt root q ++ [c.comp]) = cnt.get (keyAt root q ++ [c.comp]) + 1)
  | _, _, _, .seg hm, q, j, i, ch, cnt, cur, hip, hch, hc, hinv, hr, hu, hrep, hnf => by
    subst hip
    obtain ⟨hn, hs⟩ := step_seg rootId h hinv hr.on hch hc rfl hm hu hrep hnf
    apply After.step hn hs
    apply After.nil (post_seg h hinv hr.on hch hc rfl)
    exact ⟨ready_here _ _ _ _, agreeOff_incr _ _, get_incr_same _ _⟩
  | _, _, _, .loop (lid := lid) (p := p) (u := u) (r := r) (w := w) (first := first) (rest := rest) hseg hm hl,
      q, j, i, ch, cnt, cur, hip, hch, hc, hinv, hr, hu, hrep, hnf => by
    simp only [Node.usage, Node.rep, Node.comp] at hu hrep ⊢
    obtain ⟨hn, hs⟩ := step_loop rootId h hinv hr.on hch hc hseg hm hu hrep
    have hinv1 := post_loop h hinv hr.on hch hc hseg
    have hsub : chAt root (q ++ [j]) = some (first :: rest) := by rw [chAt_snoc hch, hc]
    have hkey : keyAt root (q ++ [j]) = keyAt root q ++ [(lid, 0)] := keyAt_snoc hch hc
    have hr1 : ReadyAt root (enterCnt cnt (keyAt root q ++ [(lid, 0)]) first.comp) (q ++ [j] ++ [0]) (q ++ [j]) 0 1 :=
      ready_skip (ready_here _ _ _ _) (by intro hh; omega)
    have hrec := p_list hl (q ++ [j]) 0 (first :: rest) _ _ hip hsub (by simp) hinv1 hr1 (by omega) (Or.inr (Or.inl (by omega)))
    subst hip
    apply After.step hn hs
    refine After.mono hrec ?_
    intro cnt' cur' ⟨⟨i', hi', hra⟩, hso⟩
    rw [hkey] at hso
    refine ⟨ready_up hsub hra (by simp; omega), AgreeOff.trans (agreeOff_enter _ _ _) hso.agree, ?_⟩
    rw [hso _ (fun hh => hh.2 rfl), get_enterCnt_self]
termination_by structural _ _ _ d => d
theorem p_reps : ∀ {ip : List Nat} {c : Node} {k : Nat} {out : List Emit}, GenReps K ip c k out →
    ∀ (q : List Nat) (j i : Nat) (ch : List Node) (cnt : Counter) (cur : List Nat),
    ip = q ++ [j] → chAt root q = some ch → ch[j]? = some c → counted c = true → Inv root cnt cur →
    ReadyAt root cnt cur q i j → cnt.get (keyAt root q ++ [c.comp]) = k → (q = [] ∨ 0 < j ∨ firstIsLoop ch = true) →
    After K root rootId cnt cur out (fun cnt' cur' =>
      (∃ i', i' ≤ j ∧ ReadyAt root cnt' cur' q i' (j + 1)) ∧ AgreeOff cnt cnt' (keyAt root q ++ [c.comp]))
  | _, _, _, _, .stop hk, q, j, i, ch, cnt, cur, hip, hch, hc, hcnt, hinv, hr, hget, hnf => by
    apply After.nil hinv
    refine ⟨⟨i, hr.2.1, ready_skip hr ?_⟩, AgreeOff.refl _ _⟩
    intro _ ch' c' hch' hc'
    rw [hch] at hch'; simp only [Option.some.injEq] at hch'; subst hch'
    rw [hc] at hc'; simp only [Option.some.injEq] at hc'; subst hc'
    exact satisfied_counted hcnt (fun hu0 => by rw [hget]; exact hk hu0)
  | _, _, _, _, .more hu hk hone hreps, q, j, i, ch, cnt, cur, hip, hch, hc, hcnt, hinv, hr, hget, hnf => by
    have h1 := p_one hone q j i ch cnt cur hip hch hc hinv hr hu (by rw [hget]; exact hk) hnf
    have := After.seq h1 (Q := fun cnt1 cnt' cur' =>
        (∃ i', i' ≤ j ∧ ReadyAt root cnt' cur' q i' (j + 1)) ∧ AgreeOff cnt1 cnt' (keyAt root q ++ [_]))
      (fun cnt1 cur1 hinv1 ⟨hr1, _, hg1⟩ =>
        p_reps hreps q j j ch cnt1 cur1 hip hch hc hcnt hinv1 hr1 (by rw [hg1, hget]) hnf)
    refine ⟨this.1, this.2.1, this.2.2.1, ?_⟩
    exact AgreeOff.trans h1.2.2.2.1 this.2.2.2
termination_by structural _ _ _ _ d => d
theorem p_child : ∀ {ip : List Nat} {c : Node} {out : List Emit}, GenChild K ip c out →
    ∀ (q : List Nat) (j i : Nat) (ch : List Node) (cnt : Counter) (cur : List Nat),
    ip = q ++ [j] → chAt root q = some ch → ch[j]? = some c → Inv root cnt cur →
    ReadyAt root cnt cur q i j → i < j → (q = [] ∨ 0 < j ∨ firstIsLoop ch = true) →
    After K root rootId cnt cur out (fun cnt' cur' =>
      (∃ i', i' ≤ j ∧ ReadyAt root cnt' cur' q i' (j + 1)) ∧ AgreeOff cnt cnt' (keyAt root q ++ [c.comp]))
  | _, _, _, .counted hcnt hreps, q, j, i, ch, cnt, cur, hip, hch, hc, hinv, hr, hij, hnf => by
    obtain ⟨ch0, hch0, hl⟩ := hinv.lev q i hr.1
    rw [hch] at hch0; simp only [Option.some.injEq] at hch0; subst hch0
    have hz := hl.later j _ hij hc _ (List.prefix_refl _)
    exact p_reps hreps q j i ch cnt cur hip hch hc hcnt hinv hr hz hnf
  | _, _, _, .empty, q, j, i, ch, cnt, cur, hip, hch, hc, hinv, hr, hij, hnf => by
    apply After.nil hinv
    refine ⟨⟨i, by omega, ready_skip hr ?_⟩, AgreeOff.refl _ _⟩
    intro _ ch' c' hch' hc'
    rw [hch] at hch'; simp only [Option.some.injEq] at hch'; subst hch'
    rw [hc] at hc'; simp only [Option.some.injEq] at hc'; subst hc'
    simp [satisfied, satHead]
  | _, _, _, .wrapper hfs _ _, q, j, i, ch, cnt, cur, hip, hch, hc, hinv, hr, hij, hnf => by
    exfalso
    have := noWrapperList_get (noWrapper_chAt hnw hch) hc
    simp [noWrapperNode, firstIsLoop, hfs] at this
  | _, _, _, .wrapperN hfs, q, j, i, ch, cnt, cur, hip, hch, hc, hinv, hr, hij, hnf => by
    exfalso
    have := noWrapperList_get (noWrapper_chAt hnw hch) hc
    simp [noWrapperNode, firstIsLoop, hfs] at this
termination_by structural _ _ _ d => d
theorem p_list : ∀ {lip : List Nat} {j : Nat} {rest : List Node} {out : List Emit}, GenList K lip j rest out →
    ∀ (q : List Nat) (i : Nat) (ch : List Node) (cnt : Counter) (cur : List Nat),
    lip = q → chAt root q = some ch → ch.drop j = rest → Inv root cnt cur →
    ReadyAt root cnt cur q i j → i < j → (q = [] ∨ 0 < j ∨ firstIsLoop ch = true) →
    After K root rootId cnt cur out (fun cnt' cur' =>
      (∃ i', i' < j + rest.length ∧ ReadyAt root cnt' cur' q i' (j + rest.length)) ∧
      StrictOff cnt cnt' (keyAt root q))
  | _, _, _, _, .nil, q, i, ch, cnt, cur, hip, hch, hd, hinv, hr, hij, hnf => by
    apply After.nil hinv
    exact ⟨⟨i, by simpa using hij, by simpa using hr⟩, StrictOff.refl _ _⟩
  | _, _, _, _, .cons (i := j) (c := c) (r := r) hchild hlist, q, i, ch, cnt, cur, hip, hch, hd, hinv, hr, hij, hnf => by
    obtain ⟨hc, hd'⟩ := drop_cons_get hd
    have h1 := p_child hchild q j i ch cnt cur (by rw [hip]) hch hc hinv hr hij hnf
    have := After.seq h1 (Q := fun cnt1 cnt' cur' =>
        (∃ i', i' < j + 1 + r.length ∧ ReadyAt root cnt' cur' q i' (j + 1 + r.length)) ∧
        StrictOff cnt1 cnt' (keyAt root q))
      (fun cnt1 cur1 hinv1 ⟨⟨i', hi', hr1⟩, _⟩ =>
        p_list hlist q i' ch cnt1 cur1 hip hch hd' hinv1 hr1 (by omega) (Or.inr (Or.inl (by omega))))
    refine ⟨this.1, this.2.1, ?_, ?_⟩
    · have := this.2.2.1
      simpa [Nat.add_assoc, Nat.add_comm 1] using this
    · exact StrictOff.trans h1.2.2.2.strict this.2.2.2
termination_by structural _ _ _ _ d => d
end

end

end Pyx12Verif.WalkerGen
