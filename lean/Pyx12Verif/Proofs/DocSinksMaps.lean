/-
The per-map side condition of the XML theorems as a decidable check.

`loopsTo` answers a query (index path -> chain of loops); `allLoopsIn` enumerates the chains of ALL segment nodes of a
skeleton (mutual node / list recursion, kernel-evaluable), `loopsTo_mem` shows the enumeration complete, and `mapsOKB`
evaluates C08's `noSiblingLoopIdPrefix` over a list of paths that covers the enumerated chains of every loaded map.
`mapsOK_of_b` turns the Boolean into the hypothesis `MapsOK` of Props/DocSinks.lean.
-/
import Pyx12Verif.Proofs.DocSinksRounds

namespace Pyx12Verif.Doc
open Pyx12Verif

theorem consAll_mem (p : Nat × Bool) : ∀ (ls : List (List (Nat × Bool))) (l : List (Nat × Bool)), l ∈ ls → (p :: l) ∈ consAll p ls
  | [], l, h => by cases h
  | x :: r, l, h => by
    rcases List.mem_cons.1 h with rfl | h
    · simp [consAll]
    · simp [consAll, consAll_mem p r l h]

theorem allLoopsIn_mem : ∀ (ns : List MapSkel.Node) (n : MapSkel.Node) (l : List (Nat × Bool)), n ∈ ns → l ∈ loopsOfNode n →
    l ∈ allLoopsIn ns
  | [], n, l, h, _ => by cases h
  | x :: r, n, l, h, hl => by
    simp only [allLoopsIn, List.mem_append]
    rcases List.mem_cons.1 h with rfl | h
    · exact Or.inl hl
    · exact Or.inr (allLoopsIn_mem r n l h hl)

/-- the enumeration is complete: whatever index path is asked, the chain found is listed -/
theorem loopsTo_mem : ∀ (ip : List Nat) (ns : List MapSkel.Node) (l : List (Nat × Bool)), loopsTo ns ip = some l → l ∈ allLoopsIn ns
  | [], ns, l => by intro h; simp [loopsTo] at h
  | i :: r, ns, l => by
    intro h
    simp only [loopsTo] at h
    cases hn : ns[i]? with
    | none => simp [hn] at h
    | some n =>
      have hmem : n ∈ ns := List.mem_of_getElem? hn
      simp only [hn] at h
      cases n with
      | seg a b c d e f g =>
        simp only [loopsNode] at h
        split at h
        · simp only [Option.some.injEq] at h
          subst h
          exact allLoopsIn_mem ns _ [] hmem (by simp [loopsOfNode])
        · simp at h
      | loop lid b c d w ch =>
        simp only [loopsNode] at h
        split at h
        · simp at h
        · obtain ⟨t, ht, rfl⟩ := consOpt_eq_some _ _ _ h
          have := loopsTo_mem r ch t ht
          exact allLoopsIn_mem ns _ _ hmem (by simp only [loopsOfNode]; exact consAll_mem _ _ _ this)

end Pyx12Verif.Doc
