/-
Helpers for Proofs/C06RevalEnv.lean (the 997 seen through the reader's segment views):
  * normal form of element lists whose last element is not empty (`normElems_snoc`, `normElems_pair`)
  * `Pipeline.viewOf` of a normalised segment, by kind of identifier (`viewOf_plain`, `viewOf_pair`, `viewOf_at`)
  * `Envelope.fieldInt (some (natStr n)) = some (natInt n)` for `n < 10 ^ 10` (`fieldInt_natStr`)
  * `Doc.ViewsAre` over `++` (`viewsAre_append`)
-/
import Pyx12Verif.Proofs.C06RevalDefs

namespace Pyx12Verif.C06R
open Pyx12Verif Pyx12Verif.Ack Pyx12Verif.C06

/-! ### normal form -/

theorem trimTrail_snoc {α : Type} (p : α → Bool) (l : List α) (x : α) (hx : p x = false) :
    SegText.trimTrail p (l ++ [x]) = l ++ [x] := by
  simp [SegText.trimTrail, hx]

theorem normElems_snoc (es : List (List Str)) (x : List Str) (hx : SegText.isEmptyComp x = false) :
    SegText.normElems (es ++ [x]) = (es ++ [x]).map SegText.normComp := by
  unfold SegText.normElems
  rw [trimTrail_snoc _ _ _ hx]
  simp

theorem isEmptyComp_single (v : Str) (hv : v ≠ []) : SegText.isEmptyComp [v] = false := by
  cases v with
  | nil => exact absurd rfl hv
  | cons c r => rfl

theorem normElems_pair (a b : Str) (hb : b ≠ []) : SegText.normElems [[a], [b]] = [[a], [b]] := by
  have := normElems_snoc [[a]] [b] (isEmptyComp_single b hb)
  simpa [SegText.normComp_single] using this

theorem formatComp_norm (sep : Char) (c : List Str) :
    SegText.formatComp sep (SegText.normComp c) = some (SegText.joinWith sep (SegText.normComp c)) := by
  rw [SegText.formatComp_eq sep _ (SegText.normComp_ne_nil c), SegText.normComp_idem]

/-! ### the reader's view -/

/-- a segment that is none of ISA / IEA / GS / GE / ST / SE / HL / LX: no element is read -/
def Plain (id : Str) : Prop :=
  id ≠ Envelope.idISA ∧ id ≠ Envelope.idIEA ∧ id ≠ Envelope.idGS ∧ id ≠ Envelope.idGE ∧ id ≠ Envelope.idST ∧
  id ≠ Envelope.idSE ∧ id ≠ Envelope.idHL ∧ id ≠ Envelope.idLX

instance (id : Str) : Decidable (Plain id) := by unfold Plain; infer_instance

theorem viewOf_plain (d : Doc.Delims) (s : Doc.Seg) (h : Plain s.id) :
    Pipeline.viewOf d s = some ⟨s.id, none, none, s.elems.length == 16⟩ := by
  obtain ⟨h1, h2, h3, h4, h5, h6, h7, h8⟩ := h
  simp [Pipeline.viewOf, Pipeline.cntIdx, Pipeline.ctlIdx, h1, h2, h3, h4, h5, h6, h7, h8, Pipeline.fetch,
    Pipeline.mkView, Pipeline.mkView2]

theorem getValue_single (d : Doc.Delims) (s : Doc.Seg) (k : Nat) (v : Str) (h : s.elems[k]? = some [v]) :
    Pipeline.getValue d s k = .value v := by
  have : SegText.formatComp (Pipeline.sepOf d s.id) [v] = some v := by
    rw [SegText.formatComp_eq _ _ (by simp), SegText.normComp_single]; rfl
  simp [Pipeline.getValue, h, Pipeline.compFormat, this]

/-- IEA / GE / SE with exactly the two elements `cnt`, `ctl` -/
theorem viewOf_pair (d : Doc.Delims) (id cnt ctl : Str)
    (hid : id = Envelope.idIEA ∨ id = Envelope.idGE ∨ id = Envelope.idSE) :
    Pipeline.viewOf d ⟨id, [[cnt], [ctl]]⟩ = some ⟨id, some cnt, some ctl, false⟩ := by
  have g0 := getValue_single d ⟨id, [[cnt], [ctl]]⟩ 0 cnt rfl
  have g1 := getValue_single d ⟨id, [[cnt], [ctl]]⟩ 1 ctl rfl
  rcases hid with rfl | rfl | rfl
  · have e1 : Pipeline.cntIdx Envelope.idIEA = some 0 := by decide
    have e2 : Pipeline.ctlIdx Envelope.idIEA = some 1 := by decide
    simp [Pipeline.viewOf, e1, e2, Pipeline.fetch, g0, g1, Pipeline.fetchOf, Pipeline.mkView, Pipeline.mkView2]
  · have e1 : Pipeline.cntIdx Envelope.idGE = some 0 := by decide
    have e2 : Pipeline.ctlIdx Envelope.idGE = some 1 := by decide
    simp [Pipeline.viewOf, e1, e2, Pipeline.fetch, g0, g1, Pipeline.fetchOf, Pipeline.mkView, Pipeline.mkView2]
  · have e1 : Pipeline.cntIdx Envelope.idSE = some 0 := by decide
    have e2 : Pipeline.ctlIdx Envelope.idSE = some 1 := by decide
    simp [Pipeline.viewOf, e1, e2, Pipeline.fetch, g0, g1, Pipeline.fetchOf, Pipeline.mkView, Pipeline.mkView2]

/-- ISA / GS / ST: only the control number (element `k`) is read -/
theorem viewOf_at (d : Doc.Delims) (id : Str) (es : List (List Str)) (k : Nat) (ctl : Str)
    (hk : Pipeline.ctlIdx id = some k) (hc : Pipeline.cntIdx id = none) (he : es[k]? = some [ctl]) :
    Pipeline.viewOf d ⟨id, es⟩ = some ⟨id, none, some ctl, es.length == 16⟩ := by
  have g := getValue_single d ⟨id, es⟩ k ctl he
  simp [Pipeline.viewOf, hk, hc, Pipeline.fetch, g, Pipeline.fetchOf, Pipeline.mkView, Pipeline.mkView2]

/-! ### `ViewsAre` -/

theorem viewsAre_append (d : Doc.Delims) : ∀ (a : List Doc.Seg) (va : List Envelope.SegView) (b : List Doc.Seg)
    (vb : List Envelope.SegView), Doc.ViewsAre d a va → Doc.ViewsAre d b vb → Doc.ViewsAre d (a ++ b) (va ++ vb) := by
  intro a
  induction a with
  | nil =>
    intro va b vb h1 h2
    cases va with
    | nil => exact h2
    | cons v w => cases h1
  | cons x r ih =>
    intro va b vb h1 h2
    cases va with
    | nil => cases h1
    | cons v w => exact ⟨h1.1, ih w b vb h1.2 h2⟩

theorem viewsAre_map (d : Doc.Delims) (f : PSeg → Doc.Seg) (g : PSeg → Envelope.SegView) :
    ∀ (l : List PSeg), (∀ x ∈ l, Pipeline.viewOf d (f x) = some (g x)) → Doc.ViewsAre d (l.map f) (l.map g) := by
  intro l
  induction l with
  | nil => intro _; trivial
  | cons x r ih =>
    intro h
    exact ⟨h x (by simp), ih (fun y hy => h y (List.mem_cons_of_mem _ hy))⟩

/-! ### counts -/

theorem ofDigitChars_valAcc (l : Str) (a : Nat) : Nat.ofDigitChars 10 l a = valAcc a l := by
  induction l generalizing a with
  | nil => rw [Nat.ofDigitChars_nil]; rfl
  | cons c r ih =>
    rw [Nat.ofDigitChars_cons, ih, Nat.mul_comm]
    rfl

theorem digits_length (k n : Nat) (h : n < 10 ^ (k + 1)) : (digits n).length ≤ k + 1 := by
  induction k generalizing n with
  | zero =>
    rw [digits]
    have : n < 10 := by rw [Nat.zero_add, Nat.pow_one] at h; exact h
    rw [if_pos this]
    exact Nat.le_refl _
  | succ k ih =>
    rw [digits]
    split
    · simp
    · have h2 : n / 10 < 10 ^ (k + 1) := by
        rw [Nat.div_lt_iff_lt_mul (by omega)]
        rw [Nat.pow_succ] at h
        exact h
      have := ih (n / 10) h2
      rw [List.length_append, List.length_singleton]
      omega

theorem digits_ne_nil (n : Nat) : digits n ≠ [] := by
  rw [digits]
  split <;> simp

theorem natStr_ne_nil (n : Nat) : natStr n ≠ [] := by rw [natStr_eq_digits]; exact digits_ne_nil n

theorem fmt04_ne_nil (n : Nat) : fmt04 n ≠ [] := by
  unfold fmt04 padZeros
  have := natStr_ne_nil n
  simp [this]

/-- a written counter below `10 ^ 10` is read back as itself -/
theorem fieldInt_natStr (n : Nat) (h : n < 10 ^ 10) : Envelope.fieldInt (some (natStr n)) = some (Envelope.natInt n) := by
  have hd : ∀ c ∈ natStr n, Envelope.isDigit c = true := by
    intro c hc
    have := natStr_digits n c hc
    rw [Envelope.isDigit_iff_toNat]
    simpa [isDigitC] using this
  have hl : (natStr n).length ≤ Envelope.maxStrDigits := by
    rw [natStr_eq_digits]
    have := digits_length 9 n h
    unfold Envelope.maxStrDigits
    omega
  show Envelope.pyInt (natStr n) = _
  rw [Envelope.pyInt_ascii_digits _ (natStr_ne_nil n) hd hl, ofDigitChars_valAcc, valAcc_natStr]
  rfl

end Pyx12Verif.C06R
