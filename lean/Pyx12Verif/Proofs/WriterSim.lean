/-
The writer and a reader of its output in lockstep: along a well-nested history the reader's envelope bookkeeping
agrees with the writer's on every open level, so every generated trailer meets its own header on top of the reader's
stack with the count the reader has itself.
-/
import Pyx12Verif.Proofs.WriterSteps
import Pyx12Verif.Proofs.EnvelopeTail
import Pyx12Verif.Proofs.EnvelopeParse

namespace Pyx12Verif.Writer
open Pyx12Verif.Envelope (RState SegView Kind Fixes Str Level Err idISA idIEA idGS idGE idST idSE idHL idLX idCLM decimal
  isEnvId mkISA mkGS mkST mkSE mkGE mkIEA pyInt fieldInt natInt baseStep step dupErr SameEnv Runs Normal)
open Pyx12Verif.SegText (Seg Delims joinWith normComp splitOn)

def GoodCtl (d : Delims) (o : Option Str) : Prop := ∃ c, o = some c ∧ CtlOk d c

/-- what the lockstep argument uses of the reader's view of a written segment (two instances: the view of the segment
as data, `rview d`, and the view of the segment as the reader parses it back from the text, `rview d ∘ normSeg`) -/
structure RvOk (c : Cfg) (rv : Seg → SegView) : Prop where
  id : ∀ s, (rv s).id = s.id
  trailer : ∀ id, isTrailerId id = true → ∀ a b : Str, b ≠ [] → rv ⟨id, [[a], [b]]⟩ = ⟨id, some a, some b, false⟩
  gs : ∀ s, s.id = idGS → GoodCtl c.d (ctlOf c.d s) → rv s = mkGS (ctlOf c.d s)
  st : ∀ s, s.id = idST → GoodCtl c.d (ctlOf c.d s) → rv s = mkST (ctlOf c.d s)
  isa : ∀ s icvn, s.id = idISA → s.elems.length = 16 → WfSeg s → GoodCtl c.d (ctlOf c.d s) →
    rv (isaOut c s icvn) = mkISA (ctlOf c.d s)

theorem rvOk_rview (c : Cfg) : RvOk c (rview c.d) :=
  ⟨rview_id c.d, fun id hid a b _ => rview_trailer c.d id hid a b, fun s h _ => rview_GS c.d s h,
   fun s h _ => rview_ST c.d s h, fun s icvn h1 h2 _ _ => rview_isaOut c s h1 h2 icvn⟩

/-- the stack of open envelopes at each nesting level -/
def Shape (d : Delims) : Level → List (Kind × Option Str) → Prop
  | .top, l => l = []
  | .inIsa, l => ∃ c1, GoodCtl d c1 ∧ l = [(Kind.isa, c1)]
  | .inGs, l => ∃ c1 c2, GoodCtl d c1 ∧ GoodCtl d c2 ∧ l = [(Kind.gs, c2), (Kind.isa, c1)]
  | .inSt, l => ∃ c1 c2 c3, GoodCtl d c1 ∧ GoodCtl d c2 ∧ GoodCtl d c3 ∧
      l = [(Kind.st, c3), (Kind.gs, c2), (Kind.isa, c1)]

/-- writer state `w` after a history, reader state `r` after what was written: same stack, same id lists and the same
count on every level that is still open (the writer resets a count when it closes the level, the reader when the
next header of that level arrives) -/
structure Sim (d : Delims) (lvl : Level) (w r : RState) : Prop where
  loops : r.loops = w.loops
  isaIds : r.isaIds = w.isaIds
  chkw : w.chk837 = false
  chkr : r.chk837 = false
  shape : Shape d lvl w.loops
  gs : lvl ≠ .top → r.gsCount = w.gsCount ∧ r.gsIds = w.gsIds
  st : (lvl = .inGs ∨ lvl = .inSt) → r.stCount = w.stCount ∧ r.stIds = w.stIds
  seg : lvl = .inSt → r.segCount = w.segCount

def Bounded (w : RState) (k : Nat) : Prop := w.gsCount ≤ k ∧ w.stCount ≤ k ∧ w.segCount ≤ k

/-- the reader's errors: HL numbering, or a duplicate control number; the latter only where one is not fresh -/
def ErrsOk (fresh : Prop) (errs : List (List Err)) : Prop :=
  (∀ e ∈ errs.flatten, isHlErr e = true ∨ isDupErr e = true) ∧ (fresh → ∀ e ∈ errs.flatten, isHlErr e = true)

structure StepOk (lvl lvl' : Level) (r r' : RState) (vs : List SegView) (fresh : Prop) : Prop where
  run : ∃ errs, Runs r vs r' errs ∧ ErrsOk fresh errs
  walk : Envelope.walk lvl vs = some lvl'
  normal : ∀ v ∈ vs, Normal v

theorem ErrsOk.nil (f : Prop) : ErrsOk f [] := ⟨by simp, by simp⟩

theorem ErrsOk.append {f g : Prop} {a b : List (List Err)} (ha : ErrsOk f a) (hb : ErrsOk g b) :
    ErrsOk (f ∧ g) (a ++ b) := by
  refine ⟨?_, ?_⟩
  · intro e he
    simp only [List.flatten_append, List.mem_append] at he
    rcases he with he | he
    · exact ha.1 e he
    · exact hb.1 e he
  · intro hfg e he
    simp only [List.flatten_append, List.mem_append] at he
    rcases he with he | he
    · exact ha.2 hfg.1 e he
    · exact hb.2 hfg.2 e he

theorem ErrsOk.mono {f g : Prop} {a : List (List Err)} (h : g → f) (ha : ErrsOk f a) : ErrsOk g a :=
  ⟨ha.1, fun hg => ha.2 (h hg)⟩

theorem StepOk.refl (l : Level) (r : RState) (f : Prop) : StepOk l l r r [] f :=
  ⟨⟨[], Runs.nil r, ErrsOk.nil f⟩, rfl, by simp⟩

theorem StepOk.trans {l l1 l2 : Level} {r r1 r2 : RState} {a b : List SegView} {f g : Prop}
    (h1 : StepOk l l1 r r1 a f) (h2 : StepOk l1 l2 r1 r2 b g) : StepOk l l2 r r2 (a ++ b) (f ∧ g) := by
  obtain ⟨e1, hr1, ho1⟩ := h1.run
  obtain ⟨e2, hr2, ho2⟩ := h2.run
  refine ⟨⟨e1 ++ e2, Runs.append hr1 hr2, ho1.append ho2⟩, Envelope.walk_append h1.walk h2.walk, ?_⟩
  intro v hv
  simp only [List.mem_append] at hv
  rcases hv with hv | hv
  · exact h1.normal v hv
  · exact h2.normal v hv

theorem StepOk.mono {l l' : Level} {r r' : RState} {a : List SegView} {f g : Prop} (h : g → f)
    (hs : StepOk l l' r r' a f) : StepOk l l' r r' a g := by
  obtain ⟨e, hr, ho⟩ := hs.run
  exact ⟨⟨e, hr, ho.mono h⟩, hs.walk, hs.normal⟩

/-! ### the reader on one generated trailer -/

theorem read_SE (cf : Cfg) (rv : Seg → SegView) (hrv : RvOk cf rv) (r : RState) (n : Nat) (c : Str) (hc : c ≠ [])
    (L : List (Kind × Option Str))
    (hl : r.loops = (Kind.st, some c) :: L) (hn : r.segCount + 1 = n) (hlim : n < countLimit) :
    StepOk .inSt .inGs r { r with loops := L } [rv ⟨idSE, [[decimal n], [c]]⟩] True := by
  rw [hrv.trailer idSE (by decide) _ _ hc]
  have hstep := Envelope.step_SE r (some (decimal n)) (some c) (some c) L hl
  rw [Envelope.trailerErrs_nil _ _ _ _ _ _ rfl (by rw [hn]; exact fieldInt_decimal n hlim)] at hstep
  refine ⟨⟨[[]], Runs.cons hstep (Runs.nil _), by simp [ErrsOk]⟩, ?_, ?_⟩
  · simp [Envelope.walk, Envelope.nestStep, idSE]
  · intro v hv
    simp only [List.mem_singleton] at hv
    subst hv
    simp [Normal, mkSE, idISA, idIEA, idGS, idST, idSE, idGE]

theorem read_GE (cf : Cfg) (rv : Seg → SegView) (hrv : RvOk cf rv) (r : RState) (n : Nat) (c : Str) (hc : c ≠ [])
    (L : List (Kind × Option Str))
    (hl : r.loops = (Kind.gs, some c) :: L) (hn : r.stCount = n) (hlim : n < countLimit) :
    StepOk .inGs .inIsa r { r with loops := L } [rv ⟨idGE, [[decimal n], [c]]⟩] True := by
  rw [hrv.trailer idGE (by decide) _ _ hc]
  have hstep := Envelope.step_GE r (some (decimal n)) (some c) (some c) L hl
  rw [Envelope.trailerErrs_nil _ _ _ _ _ _ rfl (by rw [hn]; exact fieldInt_decimal n hlim)] at hstep
  refine ⟨⟨[[]], Runs.cons hstep (Runs.nil _), by simp [ErrsOk]⟩, ?_, ?_⟩
  · simp [Envelope.walk, Envelope.nestStep, idGE, idST]
  · intro v hv
    simp only [List.mem_singleton] at hv
    subst hv
    simp [Normal, mkGE, idISA, idIEA, idGS, idST, idSE, idGE]

theorem read_IEA (cf : Cfg) (rv : Seg → SegView) (hrv : RvOk cf rv) (r : RState) (n : Nat) (c : Str) (hc : c ≠ [])
    (L : List (Kind × Option Str))
    (hl : r.loops = (Kind.isa, some c) :: L) (hn : r.gsCount = n) (hlim : n < countLimit) :
    StepOk .inIsa .top r { r with loops := L } [rv ⟨idIEA, [[decimal n], [c]]⟩] True := by
  rw [hrv.trailer idIEA (by decide) _ _ hc]
  have hstep := Envelope.step_IEA r (some (decimal n)) (some c) (some c) L hl
  rw [Envelope.trailerErrs_nil _ _ _ _ _ _ rfl (by rw [hn]; exact fieldInt_decimal n hlim)] at hstep
  refine ⟨⟨[[]], Runs.cons hstep (Runs.nil _), by simp [ErrsOk]⟩, ?_, ?_⟩
  · simp [Envelope.walk, Envelope.nestStep, idIEA, idGS]
  · intro v hv
    simp only [List.mem_singleton] at hv
    subst hv
    simp [Normal, mkIEA, idISA, idIEA, idGS, idST, idSE, idGE]

/-! ### closing one level -/

/-- the writer's ids are untouched by `popToLoop` -/
structure SameIds (w w' : RState) : Prop where
  isaIds : w'.isaIds = w.isaIds
  gsIds : w'.gsIds = w.gsIds
  stIds : w'.stIds = w.stIds

theorem SameIds.refl (w : RState) : SameIds w w := ⟨rfl, rfl, rfl⟩
theorem SameIds.trans {a b c : RState} (h1 : SameIds a b) (h2 : SameIds b c) : SameIds a c :=
  ⟨h2.isaIds.trans h1.isaIds, h2.gsIds.trans h1.gsIds, h2.stIds.trans h1.stIds⟩

/-- a generated trailer: `<id>*<count>*<control number>` with a clean control number -/
def GenTrailer (d : Delims) (s : Seg) : Prop :=
  ∃ id n x, isTrailerId id = true ∧ CtlOk d x ∧ s = ⟨id, [[decimal n], [x]]⟩

theorem GenTrailer.isTrailer {d : Delims} {s : Seg} (h : GenTrailer d s) : isTrailerId s.id = true := by
  obtain ⟨id, n, x, hid, _, rfl⟩ := h; exact hid

/-- what one sim step delivers -/
structure Closed (c : Cfg) (rv : Seg → SegView) (lvl lvl' : Level) (w r : RState) (k : Nat) (res : RState × List Seg) : Prop where
  sim : ∃ r', Sim c.d lvl' res.1 r' ∧ StepOk lvl lvl' r r' (res.2.map rv) True
  bounded : Bounded res.1 k
  ids : SameIds w res.1
  trailers : ∀ s ∈ res.2, GenTrailer c.d s

theorem pop_st (c : Cfg) (hd : DelimsOk c.d) (rv : Seg → SegView) (hrv : RvOk c rv) (w r : RState) (k : Nat) (hs : Sim c.d .inSt w r) (hb : Bounded w k)
    (hk : k + 1 < countLimit) : Closed c rv .inSt .inGs w r k (popToLoop c.d .st w) := by
  obtain ⟨c1, c2, c3, g1, g2, ⟨x3, rfl, hx3⟩, hl⟩ := hs.shape
  have hseg := hs.seg rfl
  have hpop : popToLoop c.d .st w =
      ({ w with segCount := 0, loops := [(Kind.gs, c2), (Kind.isa, c1)] }, [⟨idSE, [[decimal (w.segCount + 1)], [x3]]⟩]) := by
    simp [popToLoop, popTo, closeLoop, hl, trailerSeg_eq c.d hd idSE (by decide) _ x3 hx3]
  rw [hpop]
  refine ⟨⟨{ r with loops := [(Kind.gs, c2), (Kind.isa, c1)] }, ?_, ?_⟩, ?_, ⟨rfl, rfl, rfl⟩, ?_⟩
  · exact ⟨rfl, hs.isaIds, hs.chkw, hs.chkr, ⟨c1, c2, g1, g2, rfl⟩, fun _ => hs.gs (by decide),
      fun _ => hs.st (Or.inr rfl), fun h => by cases h⟩
  · have hlim : w.segCount + 1 < countLimit := by have := hb.2.2; omega
    exact read_SE c rv hrv r (w.segCount + 1) x3 hx3.1 _ (by rw [hs.loops, hl]) (by rw [hseg]) hlim
  · exact ⟨hb.1, hb.2.1, Nat.zero_le _⟩
  · intro s hm
    simp only [List.mem_singleton] at hm
    subst hm; exact ⟨_, _, _, by decide, hx3, rfl⟩

theorem pop_gs (c : Cfg) (hd : DelimsOk c.d) (rv : Seg → SegView) (hrv : RvOk c rv) (w r : RState) (k : Nat) (hs : Sim c.d .inGs w r) (hb : Bounded w k)
    (hk : k + 1 < countLimit) : Closed c rv .inGs .inIsa w r k (popToLoop c.d .gs w) := by
  obtain ⟨c1, c2, g1, ⟨x2, rfl, hx2⟩, hl⟩ := hs.shape
  have hst := hs.st (Or.inl rfl)
  have hpop : popToLoop c.d .gs w =
      ({ w with stCount := 0, loops := [(Kind.isa, c1)] }, [⟨idGE, [[decimal w.stCount], [x2]]⟩]) := by
    simp [popToLoop, popTo, closeLoop, hl, trailerSeg_eq c.d hd idGE (by decide) _ x2 hx2]
  rw [hpop]
  refine ⟨⟨{ r with loops := [(Kind.isa, c1)] }, ?_, ?_⟩, ?_, ⟨rfl, rfl, rfl⟩, ?_⟩
  · exact ⟨rfl, hs.isaIds, hs.chkw, hs.chkr, ⟨c1, g1, rfl⟩, fun _ => hs.gs (by decide),
      (fun h => by rcases h with h | h <;> cases h), fun h => by cases h⟩
  · have hlim : w.stCount < countLimit := by have := hb.2.1; omega
    exact read_GE c rv hrv r w.stCount x2 hx2.1 _ (by rw [hs.loops, hl]) hst.1 hlim
  · exact ⟨hb.1, Nat.zero_le _, hb.2.2⟩
  · intro s hm
    simp only [List.mem_singleton] at hm
    subst hm; exact ⟨_, _, _, by decide, hx2, rfl⟩

theorem pop_isa (c : Cfg) (hd : DelimsOk c.d) (rv : Seg → SegView) (hrv : RvOk c rv) (w r : RState) (k : Nat) (hs : Sim c.d .inIsa w r) (hb : Bounded w k)
    (hk : k + 1 < countLimit) : Closed c rv .inIsa .top w r k (popToLoop c.d .isa w) := by
  obtain ⟨c1, ⟨x1, rfl, hx1⟩, hl⟩ := hs.shape
  have hgs := hs.gs (by decide)
  have hpop : popToLoop c.d .isa w =
      ({ w with gsCount := 0, loops := [] }, [⟨idIEA, [[decimal w.gsCount], [x1]]⟩]) := by
    simp [popToLoop, popTo, closeLoop, hl, trailerSeg_eq c.d hd idIEA (by decide) _ x1 hx1]
  rw [hpop]
  refine ⟨⟨{ r with loops := [] }, ?_, ?_⟩, ?_, ⟨rfl, rfl, rfl⟩, ?_⟩
  · exact ⟨rfl, hs.isaIds, hs.chkw, hs.chkr, rfl, fun h => absurd rfl h,
      (fun h => by rcases h with h | h <;> cases h), fun h => by cases h⟩
  · have hlim : w.gsCount < countLimit := by have := hb.1; omega
    exact read_IEA c rv hrv r w.gsCount x1 hx1.1 _ (by rw [hs.loops, hl]) hgs.1 hlim
  · exact ⟨Nat.zero_le _, hb.2.1, hb.2.2⟩
  · intro s hm
    simp only [List.mem_singleton] at hm
    subst hm; exact ⟨_, _, _, by decide, hx1, rfl⟩

/-- chaining two closings -/
theorem Closed.then {c : Cfg} {rv : Seg → SegView} {l l1 l2 : Level} {w r : RState} {k : Nat} {res1 : RState × List Seg}
    (h1 : Closed c rv l l1 w r k res1) (res2 : RState × List Seg)
    (h2 : ∀ r1, Sim c.d l1 res1.1 r1 → Closed c rv l1 l2 res1.1 r1 k res2) :
    Closed c rv l l2 w r k (res2.1, res1.2 ++ res2.2) := by
  obtain ⟨r1, hs1, ho1⟩ := h1.sim
  have h2' := h2 r1 hs1
  obtain ⟨r2, hs2, ho2⟩ := h2'.sim
  refine ⟨⟨r2, hs2, ?_⟩, h2'.bounded, h1.ids.trans h2'.ids, ?_⟩
  · simp only [List.map_append]
    exact (ho1.trans ho2).mono (fun _ => ⟨trivial, trivial⟩)
  · intro s hm
    simp only [List.mem_append] at hm
    rcases hm with hm | hm
    · exact h1.trailers s hm
    · exact h2'.trailers s hm

/-- a trailer above the wanted level: `_popToLoop` first closes the level on top -/
theorem closeLoop_loops (d : Delims) (s : RState) (top : Kind × Option Str) : (closeLoop d s top).1.loops = s.loops := by
  unfold closeLoop
  split <;> rfl

theorem popToLoop_st_first (d : Delims) (k : Kind) (hk : k ≠ Kind.st) (w : RState) (c3 : Option Str)
    (L : List (Kind × Option Str)) (hl : w.loops = (Kind.st, c3) :: L) :
    popToLoop d k w =
      ((popToLoop d k (popToLoop d .st w).1).1, (popToLoop d .st w).2 ++ (popToLoop d k (popToLoop d .st w).1).2) := by
  have h1 : ¬ Kind.st = k := fun h => hk h.symm
  simp only [popToLoop, hl, popTo, h1, if_false, if_true, closeLoop_loops, List.singleton_append]

theorem popToLoop_gs_first (d : Delims) (w : RState) (c2 : Option Str)
    (L : List (Kind × Option Str)) (hl : w.loops = (Kind.gs, c2) :: L) :
    popToLoop d .isa w =
      ((popToLoop d .isa (popToLoop d .gs w).1).1, (popToLoop d .gs w).2 ++ (popToLoop d .isa (popToLoop d .gs w).1).2) := by
  have h1 : ¬ Kind.gs = Kind.isa := by decide
  simp only [popToLoop, hl, popTo, h1, if_false, if_true, closeLoop_loops, List.singleton_append]

theorem sim_loops_inSt {d : Delims} {w r : RState} (hs : Sim d .inSt w r) : ∃ c3 L, w.loops = (Kind.st, c3) :: L := by
  obtain ⟨c1, c2, c3, _, _, _, hl⟩ := hs.shape
  exact ⟨c3, _, hl⟩

theorem sim_loops_inGs {d : Delims} {w r : RState} (hs : Sim d .inGs w r) : ∃ c2 L, w.loops = (Kind.gs, c2) :: L := by
  obtain ⟨c1, c2, _, _, hl⟩ := hs.shape
  exact ⟨c2, _, hl⟩

theorem pop_gs_isa (c : Cfg) (hd : DelimsOk c.d) (rv : Seg → SegView) (hrv : RvOk c rv) (w r : RState) (k : Nat) (hs : Sim c.d .inGs w r) (hb : Bounded w k)
    (hk : k + 1 < countLimit) : Closed c rv .inGs .top w r k (popToLoop c.d .isa w) := by
  obtain ⟨c2, L, hl⟩ := sim_loops_inGs hs
  rw [popToLoop_gs_first c.d w c2 L hl]
  exact (pop_gs c hd rv hrv w r k hs hb hk).then _ (fun r1 hs1 => pop_isa c hd rv hrv _ r1 k hs1 (pop_gs c hd rv hrv w r k hs hb hk).bounded hk)

theorem pop_st_gs (c : Cfg) (hd : DelimsOk c.d) (rv : Seg → SegView) (hrv : RvOk c rv) (w r : RState) (k : Nat) (hs : Sim c.d .inSt w r) (hb : Bounded w k)
    (hk : k + 1 < countLimit) : Closed c rv .inSt .inIsa w r k (popToLoop c.d .gs w) := by
  obtain ⟨c3, L, hl⟩ := sim_loops_inSt hs
  rw [popToLoop_st_first c.d .gs (by decide) w c3 L hl]
  exact (pop_st c hd rv hrv w r k hs hb hk).then _ (fun r1 hs1 => pop_gs c hd rv hrv _ r1 k hs1 (pop_st c hd rv hrv w r k hs hb hk).bounded hk)

theorem pop_st_isa (c : Cfg) (hd : DelimsOk c.d) (rv : Seg → SegView) (hrv : RvOk c rv) (w r : RState) (k : Nat) (hs : Sim c.d .inSt w r) (hb : Bounded w k)
    (hk : k + 1 < countLimit) : Closed c rv .inSt .top w r k (popToLoop c.d .isa w) := by
  obtain ⟨c3, L, hl⟩ := sim_loops_inSt hs
  rw [popToLoop_st_first c.d .isa (by decide) w c3 L hl]
  exact (pop_st c hd rv hrv w r k hs hb hk).then _
    (fun r1 hs1 => pop_gs_isa c hd rv hrv _ r1 k hs1 (pop_st c hd rv hrv w r k hs hb hk).bounded hk)

/-- `Close()` at any level: everything open is closed, the reader ends with an empty stack -/
theorem close_sim (c : Cfg) (hd : DelimsOk c.d) (rv : Seg → SegView) (hrv : RvOk c rv) (lvl : Level) (w r : RState) (k : Nat) (hs : Sim c.d lvl w r)
    (hb : Bounded w k) (hk : k + 1 < countLimit) : Closed c rv lvl .top w r k (close c w) := by
  unfold close
  cases lvl with
  | top =>
    have hl : w.loops = [] := hs.shape
    have : popToLoop c.d .isa w = (w, []) := by
      simp only [popToLoop, hl, popTo]
    rw [this]
    exact ⟨⟨r, hs, StepOk.refl _ _ _⟩, hb, SameIds.refl w, by simp⟩
  | inIsa => exact pop_isa c hd rv hrv w r k hs hb hk
  | inGs => exact pop_gs_isa c hd rv hrv w r k hs hb hk
  | inSt => exact pop_st_isa c hd rv hrv w r k hs hb hk

end Pyx12Verif.Writer
