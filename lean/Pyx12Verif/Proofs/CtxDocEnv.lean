/-
`_parse_segment` raises `X12Error` on purpose in one place only: an ISA segment that does not have 16 elements.
(`Envelope.step_noCrash` excludes the unintended exceptions; this is the companion for `.raised`.)
-/
import Pyx12Verif.Proofs.EnvelopeMisc

namespace Pyx12Verif.Envelope

def Outcome.IsOk {α : Type} (o : Outcome α) : Prop := ∃ a, o = .ok a

theorem isOk_bind {α β : Type} (o : Outcome α) (f : α → Outcome β) (h1 : o.IsOk) (h2 : ∀ a, (f a).IsOk) :
    (o.bind f).IsOk := by
  obtain ⟨a, rfl⟩ := h1
  exact h2 a

theorem isOk_ok {α : Type} (a : α) : (Outcome.ok a).IsOk := ⟨a, rfl⟩

theorem popLoop_isOk (s : RState) (es : List Err) : (popLoop Fixes.all s es).IsOk := by
  unfold popLoop; split <;> simp [Fixes.all, Outcome.IsOk]

theorem checkCount_isOk (s : RState) (es : List Err) (c : Option Str) (n : Nat) (e : Err) :
    (checkCount Fixes.all s es c n e).IsOk := by
  unfold checkCount; rw [pyIntArg_all]; exact popLoop_isOk _ _

theorem checkId_isOk (s : RState) (es : List Err) (v : SegView) (e1 e2 : Err) (n : Nat) :
    (checkId Fixes.all s es v e1 e2 n).IsOk := by
  unfold checkId; split
  · simp only [Fixes.all, if_true]; exact checkCount_isOk _ _ _ _ _
  · exact checkCount_isOk _ _ _ _ _

theorem closeEnv_isOk (k : Kind) (e0 e1 e2 : Err) (n : Nat) (s : RState) (v : SegView) :
    (closeEnv Fixes.all k e0 e1 e2 n s v).IsOk := by
  unfold closeEnv; split
  · simp only [Fixes.all, if_true]; exact checkId_isOk _ _ _ _ _ _
  · split <;> exact checkId_isOk _ _ _ _ _ _

theorem closeSet_isOk (s : RState) (v : SegView) : (closeSet Fixes.all s v).IsOk := by
  unfold closeSet; split
  · simp only [Fixes.all, if_true]; exact checkCount_isOk _ _ _ _ _
  · exact checkCount_isOk _ _ _ _ _

theorem trailerStep_isOk (s : RState) (v : SegView) : (trailerStep Fixes.all s v).IsOk := by
  unfold trailerStep
  split
  · exact closeEnv_isOk _ _ _ _ _ _ _
  · split
    · exact closeEnv_isOk _ _ _ _ _ _ _
    · split
      · exact closeSet_isOk _ _
      · exact isOk_ok _

theorem baseHl_isOk (s : RState) (v : SegView) : (baseHl Fixes.all s v).IsOk := by
  unfold baseHl; rw [pyIntArg_all]; simp only [Outcome.bind]
  unfold hlParent
  split
  · exact isOk_ok _
  · rw [pyIntArg_all]; simp only [Outcome.bind]
    split
    · exact isOk_ok _
    · split
      · rename_i h; simp [Fixes.all] at h
      · exact isOk_ok _

theorem baseBranch_isOk (s : RState) (v : SegView) (h : v.id = idISA → v.n16 = true) :
    (baseBranch Fixes.all s v).IsOk := by
  unfold baseBranch
  split
  · rename_i hid
    unfold baseIsa
    simp only [h hid, Bool.true_eq_false, if_false]
    exact isOk_ok _
  · split
    · exact isOk_ok _
    · split
      · exact isOk_ok _
      · split
        · exact baseHl_isOk _ _
        · split
          · exact isOk_ok _
          · split <;> exact isOk_ok _

/-- `_parse_segment` returns normally on everything but an ISA segment without 16 elements -/
theorem step_isOk (s : RState) (v : SegView) (h : v.id = idISA → v.n16 = true) : (step Fixes.all s v).IsOk := by
  unfold step baseStep
  refine isOk_bind _ _ (isOk_bind _ _ (baseBranch_isOk s v h) (fun _ => isOk_ok _)) (fun a => ?_)
  exact isOk_bind _ _ (trailerStep_isOk _ _) (fun _ => isOk_ok _)

end Pyx12Verif.Envelope
