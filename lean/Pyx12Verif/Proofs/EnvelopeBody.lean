/-
Running the body of a set: every body segment draws exactly the errors the recount blames on it, the
envelope bookkeeping is untouched, `hl_stack` is the ancestor chain of the last HL.
-/
import Pyx12Verif.Proofs.EnvelopeSteps

namespace Pyx12Verif.Envelope

/-- the envelope part of the state is unchanged -/
structure SameEnv (s s' : RState) : Prop where
  loops : s'.loops = s.loops
  gsCount : s'.gsCount = s.gsCount
  stCount : s'.stCount = s.stCount
  isaIds : s'.isaIds = s.isaIds
  gsIds : s'.gsIds = s.gsIds
  stIds : s'.stIds = s.stIds
  chk837 : s'.chk837 = s.chk837

theorem SameEnv.refl (s : RState) : SameEnv s s := ⟨rfl, rfl, rfl, rfl, rfl, rfl, rfl⟩

theorem SameEnv.trans {a b c : RState} (h1 : SameEnv a b) (h2 : SameEnv b c) : SameEnv a c :=
  ⟨h2.loops.trans h1.loops, h2.gsCount.trans h1.gsCount, h2.stCount.trans h1.stCount,
   h2.isaIds.trans h1.isaIds, h2.gsIds.trans h1.gsIds, h2.stIds.trans h1.stIds, h2.chk837.trans h1.chk837⟩

/-- what the reader's HL / LX bookkeeping holds after the body segments `pre` of the current set -/
structure BodyInv (pre : List SegView) (s : RState) : Prop where
  hlCount : s.hlCount = (pre.filter isHL).length
  hlStack : s.hlStack = lastChain pre
  lx : s.chk837 = true → (∃ c ∈ pre, c.id = idCLM) → s.lxCount = ((sinceLastCLM pre).filter isLX).length

/-! list facts -/

theorem isHL_iff (v : SegView) : isHL v = true ↔ v.id = idHL := by simp [isHL]
theorem isLX_iff (v : SegView) : isLX v = true ↔ v.id = idLX := by simp [isLX]
theorem isCLM_iff (v : SegView) : isCLM v = true ↔ v.id = idCLM := by simp [isCLM]

theorem hlParents_snoc_hl (pre : List SegView) (v : SegView) (h : v.id = idHL) :
    hlParents (pre ++ [v]) = hlParents pre ++ [v.ctl] := by
  simp [hlParents, List.filter_append, (isHL_iff v).mpr h]

theorem hlParents_snoc_other (pre : List SegView) (v : SegView) (h : v.id ≠ idHL) :
    hlParents (pre ++ [v]) = hlParents pre := by
  have : isHL v = false := by simpa [isHL] using h
  simp [hlParents, List.filter_append, this]

theorem hlParents_length (pre : List SegView) : (hlParents pre).length = (pre.filter isHL).length := by
  simp [hlParents]

theorem sinceLastCLM_snoc_clm (pre : List SegView) (v : SegView) (h : v.id = idCLM) :
    sinceLastCLM (pre ++ [v]) = [] := by
  simp [sinceLastCLM, (isCLM_iff v).mpr h]

theorem sinceLastCLM_snoc_other (pre : List SegView) (v : SegView) (h : v.id ≠ idCLM) :
    sinceLastCLM (pre ++ [v]) = sinceLastCLM pre ++ [v] := by
  have : isCLM v = false := by simpa [isCLM] using h
  simp [sinceLastCLM, this]

theorem exists_clm_snoc (pre : List SegView) (v : SegView) (h : v.id ≠ idCLM) :
    (∃ c ∈ pre ++ [v], c.id = idCLM) ↔ ∃ c ∈ pre, c.id = idCLM := by
  constructor
  · rintro ⟨c, hc, e⟩
    rcases List.mem_append.mp hc with hc | hc
    · exact ⟨c, hc, e⟩
    · simp at hc; subst hc; exact absurd e h
  · rintro ⟨c, hc, e⟩; exact ⟨c, List.mem_append_left _ hc, e⟩

theorem idHL_ne_idCLM : idHL ≠ idCLM := by decide
theorem idHL_ne_idLX : idHL ≠ idLX := by decide
theorem idLX_ne_idCLM : idLX ≠ idCLM := by decide

/-! one body segment -/

theorem body_step (pre : List SegView) (s : RState) (v : SegView) (inv : BodyInv pre s)
    (henv : isEnvId v.id = false)
    (hdom : s.chk837 = true → v.id = idLX → ∃ c ∈ pre, c.id = idCLM) :
    ∃ s', step Fixes.all s v = .ok (s', bodyErrs s.chk837 pre v) ∧ BodyInv (pre ++ [v]) s' ∧ SameEnv s s' ∧
      s'.segCount = s.segCount + 1 := by
  by_cases hHL : v.id = idHL
  · -- HL
    · have hne1 : v.id ≠ idCLM := by rw [hHL]; exact idHL_ne_idCLM
      have hne2 : isLX v = false := by simp [isLX, hHL]; decide
      have hT := good_chainTable (hlParents pre)
      have hlen : (chainTable (hlParents pre)).length = s.hlCount := by
        rw [chainTable_length, hlParents_length, inv.hlCount]
      have herr : hlStepErrs s v = bodyErrs s.chk837 pre v := by
        simp only [bodyErrs, hHL, if_true, hlErrs, hlStepErrs, inv.hlCount, inv.hlStack]
        congr 1
        by_cases hb : v.ctl = some []
        · simp [hb]
        · simp only [hb, if_false]
          by_cases hv : ValidParent (lastChain pre) v.ctl
          · simp [hv, (inStack_iff _ _).mpr hv]
          · have : ¬ inStack (fieldInt v.ctl) (lastChain pre) = true := fun h => hv ((inStack_iff _ _).mp h)
            simp [hv, this]
      have hinv : BodyInv (pre ++ [v])
          { s with hlCount := s.hlCount + 1, hlStack := hlStackAfter s v, segCount := s.segCount + 1 } := by
        refine ⟨?_, ?_, ?_⟩
        · simp [List.filter_append, (isHL_iff v).mpr hHL, inv.hlCount]
        · simp only [lastChain, hlParents_snoc_hl pre v hHL, chainTable_snoc, prevChain_snoc, nextChain, hlen,
            hlStackAfter]
          congr 1
          by_cases hb : v.ctl = some []
          · simp [hb, parentChain, inv.hlStack, lastChain]
          · simp only [hb, if_false, inv.hlStack, lastChain]
            exact popUntil_eq_parentChain _ _ hT hb
        · intro hc hex
          have hex' := (exists_clm_snoc pre v hne1).mp hex
          simp only [sinceLastCLM_snoc_other pre v hne1, List.filter_append, List.filter_cons, hne2]
          simpa using inv.lx hc hex'
      exact ⟨_, herr ▸ step_HL s v hHL, hinv, ⟨rfl, rfl, rfl, rfl, rfl, rfl, rfl⟩, rfl⟩
  · have hnHL : isHL v = false := by simpa [isHL] using hHL
    by_cases hc : s.chk837 = true
    · by_cases hCLM : v.id = idCLM
      · -- CLM under check_837_lx
        refine ⟨{ s with lxCount := 0, segCount := s.segCount + 1 }, ?_, ?_, ⟨rfl, rfl, rfl, rfl, rfl, rfl, rfl⟩, rfl⟩
        · have : v.id ≠ idLX := by rw [hCLM]; exact fun e => idLX_ne_idCLM e.symm
          simpa [bodyErrs, hHL, this] using step_CLM s v hCLM hc
        · refine ⟨?_, ?_, ?_⟩
          · simp [List.filter_append, hnHL, inv.hlCount]
          · simp [lastChain, hlParents_snoc_other pre v hHL, inv.hlStack]
          · intro _ _; simp [sinceLastCLM_snoc_clm pre v hCLM]
      · by_cases hLX : v.id = idLX
        · -- LX under check_837_lx
          have hex := hdom hc hLX
          have hcount := inv.lx hc hex
          refine ⟨{ s with lxCount := s.lxCount + 1, segCount := s.segCount + 1 }, ?_, ?_,
            ⟨rfl, rfl, rfl, rfl, rfl, rfl, rfl⟩, rfl⟩
          · have := step_LX s v hLX hc
            simpa [bodyErrs, hHL, hLX, hc, lxErrs, hcount, idHL_ne_idLX.symm] using this
          · refine ⟨?_, ?_, ?_⟩
            · simp [List.filter_append, hnHL, inv.hlCount]
            · simp [lastChain, hlParents_snoc_other pre v hHL, inv.hlStack]
            · intro _ _
              simp [sinceLastCLM_snoc_other pre v hCLM, List.filter_append, (isLX_iff v).mpr hLX, hcount]
        · -- any other segment
          have hnLX : isLX v = false := by simpa [isLX] using hLX
          refine ⟨{ s with segCount := s.segCount + 1 }, ?_, ?_, ⟨rfl, rfl, rfl, rfl, rfl, rfl, rfl⟩, rfl⟩
          · simpa [bodyErrs, hHL, hLX] using step_other s v henv hHL (fun _ => ⟨hCLM, hLX⟩)
          · refine ⟨?_, ?_, ?_⟩
            · simp [List.filter_append, hnHL, inv.hlCount]
            · simp [lastChain, hlParents_snoc_other pre v hHL, inv.hlStack]
            · intro h1 hex
              have hex' := (exists_clm_snoc pre v hCLM).mp hex
              simp only [sinceLastCLM_snoc_other pre v hCLM, List.filter_append, List.filter_cons, hnLX]
              simpa using inv.lx h1 hex'
    · -- check_837_lx off: CLM and LX are ordinary segments
      refine ⟨{ s with segCount := s.segCount + 1 }, ?_, ?_, ⟨rfl, rfl, rfl, rfl, rfl, rfl, rfl⟩, rfl⟩
      · simpa [bodyErrs, hHL, hc] using step_other s v henv hHL (fun h => absurd h hc)
      · refine ⟨?_, ?_, ?_⟩
        · simp [List.filter_append, hnHL, inv.hlCount]
        · simp [lastChain, hlParents_snoc_other pre v hHL, inv.hlStack]
        · intro h1; exact absurd h1 hc

end Pyx12Verif.Envelope
