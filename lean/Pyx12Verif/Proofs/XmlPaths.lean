/- C08 helper lemmas: when does the character-wise `commonprefix` of the joined loop paths say what the component-wise
   comparison says?  (`agree_of_sibOK`) -/
import Pyx12Verif.Proofs.XmlRun

namespace Pyx12Verif.Xml
open Pyx12Verif.Path (splitOn joinWith consHead)

theorem splitOn_no_sep (sep : Char) : ∀ (a : Str), sep ∉ a → splitOn sep a = [a]
  | [], _ => rfl
  | c :: r, h => by
    have hc : c ≠ sep := fun e => h (by simp [e])
    have hr : sep ∉ r := fun e => h (by simp [e])
    simp [splitOn, hc, splitOn_no_sep sep r hr, consHead]

theorem splitOn_append_sep (sep : Char) (w : Str) : ∀ (a : Str), sep ∉ a → splitOn sep (a ++ sep :: w) = a :: splitOn sep w
  | [], _ => by simp [splitOn]
  | c :: r, h => by
    have hc : c ≠ sep := fun e => h (by simp [e])
    have hr : sep ∉ r := fun e => h (by simp [e])
    simp [splitOn, hc, splitOn_append_sep sep w r hr, consHead]

theorem pathList_plain (g : Str) (h : '/' ∉ g) : pathList g = if g = [] then [] else [g] := by
  unfold pathList
  rw [splitOn_no_sep '/' g h]
  cases g <;> simp

theorem pathList_cons (a w : Str) (h : '/' ∉ a) (hne : a ≠ []) : pathList (a ++ '/' :: w) = a :: pathList w := by
  unfold pathList
  rw [splitOn_append_sep '/' w a h]
  cases a with
  | nil => exact absurd rfl hne
  | cons c r => simp

theorem idOK_iff (s : Str) : idOK s = true ↔ s ≠ [] ∧ '/' ∉ s := by
  cases s <;> simp [idOK]

theorem commonPrefix_append (a : Str) : ∀ (x y : Str), commonPrefix (a ++ x) (a ++ y) = a ++ commonPrefix x y := by
  induction a with
  | nil => intro x y; rfl
  | cons c r ih => intro x y; simp [commonPrefix, ih]

theorem commonPrefix_nil_right : ∀ (x : Str), commonPrefix x [] = []
  | [] => rfl
  | _ :: _ => rfl

theorem commonPrefix_self_append (x z : Str) : commonPrefix x (x ++ z) = x := by
  have := commonPrefix_append x [] z
  simpa [commonPrefix] using this

theorem commonPrefix_differ (x y : Char) (a b : Str) (h : x ≠ y) : commonPrefix (x :: a) (y :: b) = [] := by
  simp [commonPrefix, h]

theorem joinWith_cons_ne (a : Str) (r : List Str) (h : r ≠ []) : joinWith '/' (a :: r) = a ++ '/' :: joinWith '/' r := by
  cases r with
  | nil => exact absurd rfl h
  | cons b s => rfl

/-- a path of well-formed ids is recovered from its joined form -/
theorem pathList_join : ∀ (p : List Str), idsOK p = true → pathList (joinWith '/' p) = p
  | [], _ => by simp [joinWith, pathList, splitOn]
  | [a], h => by
    simp only [idsOK, List.all_cons, List.all_nil, Bool.and_true, idOK_iff] at h
    simp [joinWith, pathList_plain a h.2, h.1]
  | a :: b :: r, h => by
    have h' : idOK a = true ∧ idsOK (b :: r) = true := by simpa [idsOK] using h
    have ha := (idOK_iff a).mp h'.1
    rw [joinWith_cons_ne a (b :: r) (by simp), pathList_cons a _ ha.2 ha.1, pathList_join (b :: r) h'.2]

/-- two strings neither of which is a prefix of the other part at some character -/
theorem diverge_of_not_prefix : ∀ (a b : Str), isCharPrefix a b = false → isCharPrefix b a = false →
    ∃ g x a' y b', a = g ++ x :: a' ∧ b = g ++ y :: b' ∧ x ≠ y
  | [], _, h, _ => by simp [isCharPrefix] at h
  | _ :: _, [], _, h => by simp [isCharPrefix] at h
  | x :: a, y :: b, h1, h2 => by
    by_cases e : x = y
    · subst e
      simp only [isCharPrefix, beq_self_eq_true, Bool.true_and] at h1 h2
      obtain ⟨g, x', a', y', b', ha, hb, hne⟩ := diverge_of_not_prefix a b h1 h2
      exact ⟨x :: g, x', a', y', b', by simp [ha], by simp [hb], hne⟩
    · exact ⟨[], x, a, y, b, rfl, rfl, e⟩

theorem rootPath_of_prefix (cur last : List Str) (hc : idsOK cur = true) (hp : cur <+: last) : rootPath cur last = cur := by
  obtain ⟨t, rfl⟩ := hp
  unfold rootPath
  cases cur with
  | nil => simp [joinWith, commonPrefix, pathList, splitOn]
  | cons a r =>
    cases t with
    | nil =>
      have := commonPrefix_self_append (joinWith '/' (a :: r)) []
      simp only [List.append_nil] at this ⊢
      rw [this, pathList_join _ hc]
    | cons b s =>
      have hj : joinWith '/' (a :: r ++ b :: s) = joinWith '/' (a :: r) ++ '/' :: joinWith '/' (b :: s) := by
        clear hc
        induction r generalizing a with
        | nil => rfl
        | cons c r ih =>
          have := ih c
          simp only [List.cons_append] at this ⊢
          rw [joinWith_cons_ne a (c :: (r ++ b :: s)) (by simp), this, joinWith_cons_ne a (c :: r) (by simp)]
          simp
      rw [hj, commonPrefix_self_append, pathList_join _ hc]

theorem agree_of_sibOK : ∀ (cur last : List Str), idsOK cur = true → idsOK last = true → sibOK cur last = true → Agree cur last
  | [], last, _, _, _ => by simp [Agree, rootPath, joinWith, commonPrefix, pathList, splitOn]
  | a :: cr, [], hc, _, _ => by
    simp [Agree, rootPath, joinWith, commonPrefix_nil_right, pathList, splitOn]
  | a :: cr, b :: lr, hc, hl, hs => by
    refine ⟨fun hroot => ?_, rootPath_of_prefix _ _ hc⟩
    have hc' : idOK a = true ∧ idsOK cr = true := by simpa [idsOK] using hc
    have hl' : idOK b = true ∧ idsOK lr = true := by simpa [idsOK] using hl
    have ha := (idOK_iff a).mp hc'.1
    have hb := (idOK_iff b).mp hl'.1
    by_cases e : a = b
    · subst e
      have hs' : sibOK cr lr = true := by simpa [sibOK] using hs
      cases cr with
      | nil => simp
      | cons c cr' =>
        cases lr with
        | nil =>
          exfalso
          unfold rootPath at hroot
          rw [joinWith_cons_ne a (c :: cr') (by simp)] at hroot
          have : joinWith '/' [a] = a ++ [] := by simp [joinWith]
          rw [this, commonPrefix_append, commonPrefix_nil_right, List.append_nil, pathList_plain a ha.2] at hroot
          simp [ha.1] at hroot
        | cons d lr' =>
          unfold rootPath at hroot
          rw [joinWith_cons_ne a (c :: cr') (by simp), joinWith_cons_ne a (d :: lr') (by simp), commonPrefix_append] at hroot
          simp only [commonPrefix, if_true] at hroot
          rw [pathList_cons a _ ha.2 ha.1] at hroot
          have hroot' : rootPath (c :: cr') (d :: lr') = c :: cr' := by
            unfold rootPath; exact (List.cons.inj hroot).2
          have ih := agree_of_sibOK (c :: cr') (d :: lr') hc'.2 hl'.2 hs'
          rw [List.cons_prefix_cons]
          exact ⟨rfl, ih.mp hroot'⟩
    · exfalso
      have hs' : isCharPrefix a b = false ∧ isCharPrefix b a = false := by simpa [sibOK, e] using hs
      obtain ⟨g, x, a', y, b', hA, hB, hne⟩ := diverge_of_not_prefix a b hs'.1 hs'.2
      have hg : '/' ∉ g := fun hm => ha.2 (by rw [hA]; simp [hm])
      have ja : ∃ ta, joinWith '/' (a :: cr) = g ++ x :: ta := by
        cases cr with
        | nil => exact ⟨a', by simp [joinWith, hA]⟩
        | cons c cr' => exact ⟨a' ++ '/' :: joinWith '/' (c :: cr'), by rw [joinWith_cons_ne a _ (by simp), hA]; simp⟩
      have jb : ∃ tb, joinWith '/' (b :: lr) = g ++ y :: tb := by
        cases lr with
        | nil => exact ⟨b', by simp [joinWith, hB]⟩
        | cons c lr' => exact ⟨b' ++ '/' :: joinWith '/' (c :: lr'), by rw [joinWith_cons_ne b _ (by simp), hB]; simp⟩
      obtain ⟨ta, hja⟩ := ja
      obtain ⟨tb, hjb⟩ := jb
      unfold rootPath at hroot
      rw [hja, hjb, commonPrefix_append, commonPrefix_differ x y ta tb hne, List.append_nil, pathList_plain g hg] at hroot
      by_cases hge : g = []
      · simp [hge] at hroot
      · simp only [hge, if_false] at hroot
        have : g = a := (List.cons.inj hroot).1
        rw [hA] at this
        have := congrArg List.length this
        simp at this

end Pyx12Verif.Xml
