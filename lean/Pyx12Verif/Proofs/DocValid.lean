/-
Helper lemmas for `Props/DocAccept.lean`:

* the event producers of `Model/Document.lean` report exactly the codes of the C15 model
  (`elemReports_codes`: `element_if.is_valid` as modelled twice agrees with itself);
* a segment whose values are admissible for their definitions (`ElemValid.Admissible`, C15), whose notes are
  satisfied (C14) and which has no surplus element produces only `add_ele` events and the result `True`
  (`segEvents_clean`).
-/
import Pyx12Verif.Model.Document
import Pyx12Verif.Props.C14
import Pyx12Verif.Props.C15
import Pyx12Verif.Proofs.ErrTreeRun

namespace Pyx12Verif.Doc
open Pyx12Verif ElemValid

/-! ### codes of the reports = codes of the C15 model -/

theorem map_rcond (b : Bool) (r : Report) : (rcond b r).map Report.code = if b then [r.code] else [] := by
  cases b <;> rfl

theorem map_cond (b : Bool) (n : Nat) : (ElemValid.cond b n).map codeStr = if b then [codeStr n] else [] := by
  cases b <;> rfl

theorem code4 : codeStr 4 = ['4'] := by decide
theorem code5 : codeStr 5 = ['5'] := by decide
theorem code6 : codeStr 6 = ['6'] := by decide
theorem code7 : codeStr 7 = ['7'] := by decide
theorem code8 : codeStr 8 = ['8'] := by decide
theorem code9 : codeStr 9 = ['9'] := by decide
theorem code1 : codeStr 1 = ['1'] := by decide
theorem code10 : codeStr 10 = ['1', '0'] := by decide

theorem typeReport_code (e : ElemX) (d : ElemDef) (v : Str) : (typeReport e d v).code = codeStr (typeCode d.dataType) := by
  unfold typeReport typeCode
  split
  · exact code8.symm
  · split
    · exact code9.symm
    · exact code6.symm

theorem tlReports_codes (e : ElemX) (tl : List Str) (v : Str) :
    (tlReports e tl v).map Report.code = (tlCodes tl).map codeStr := by
  unfold tlReports tlCodes
  split
  · simp [code9]
  · split
    · simp [code8]
    · rfl

theorem valueReports_codes (e : ElemX) (d : ElemDef) (c : ElemValid.Ctx) (v : Str) :
    (valueReports e d c v).map Report.code = (checkValue d c v).2.map codeStr := by
  unfold valueReports checkValue
  split
  · cases tooShort d v <;> cases tooLong d v <;> simp [rcond, ElemValid.cond, code4, code5, code6]
  · have ht := typeReport_code e d v
    have hl := tlReports_codes e d.typeList v
    cases tooShort d v <;> cases tooLong d v <;> cases trailing d v <;> cases codeOk d c v <;> cases typeOk d c v <;>
      cases tlBad d c v <;> cases regexBad d c <;>
      simp [rcond, ElemValid.cond, code4, code5, code6, code7, ht, hl]

theorem emptyReports_codes (e : ElemX) (d : ElemDef) :
    (emptyReports e d).map Report.code = (emptyCase d).2.map codeStr := by
  unfold emptyReports emptyCase
  cases d.usage with
  | N => rfl
  | S => rfl
  | R =>
    simp only
    split
    · simp [code1]
    · rfl

/-- **the reports carry exactly the codes of the C15 model, in order** -/
theorem elemReports_codes (e : ElemX) (d : ElemDef) (c : ElemValid.Ctx) (i : EIn) :
    (elemReports e d c i).map Report.code = (elemValidIn d c i.toInput).2.map codeStr := by
  cases i with
  | composite r => simp [elemReports, EIn.toInput, elemValidIn, code6]
  | absent => exact emptyReports_codes e d
  | simple v =>
    simp only [elemReports, simpleReports, EIn.toInput, elemValidIn]
    split
    · exact emptyReports_codes e d
    · split
      · simp [code10]
      · exact valueReports_codes e d c v

theorem elemReports_nil (e : ElemX) (d : ElemDef) (c : ElemValid.Ctx) (i : EIn) (h : (elemValidIn d c i.toInput).2 = []) :
    elemReports e d c i = [] := by
  have := elemReports_codes e d c i
  rw [h] at this
  simpa using this

/-! ### quiet results -/

/-- no error is reported -/
def Quiet (evs : List Event) : Prop := ∀ e ∈ evs, ErrTree.Event.isError e = false

/-- the call returns `True` and reports nothing -/
def ERes.Clean (r : ERes) : Prop := ∃ evs, r = .ok true evs ∧ Quiet evs

theorem Quiet.append {a b : List Event} (ha : Quiet a) (hb : Quiet b) : Quiet (a ++ b) := by
  intro e he
  rcases List.mem_append.1 he with h | h
  · exact ha e h
  · exact hb e h

theorem Quiet.nil : Quiet [] := by intro e he; cases he

theorem clean_andThen {a b : ERes} (ha : a.Clean) (hb : b.Clean) : (a.andThen b).Clean := by
  obtain ⟨x, rfl, hx⟩ := ha
  obtain ⟨y, rfl, hy⟩ := hb
  exact ⟨x ++ y, rfl, hx.append hy⟩

theorem clean_ok_nil : (ERes.ok true []).Clean := ⟨[], rfl, Quiet.nil⟩

/-- an element whose input is admissible (C15) and whose data element is defined where it is looked up -/
def ElemAdm (ctx : Ctx) (v5 : Bool) (e : ElemX) (tl : List Str) (i : EIn) : Prop :=
  (needsLookup e i = true → e.defined = true) ∧ Admissible (defWith e tl) (elemCtx ctx v5 e i.value) i.toInput

theorem elemEvents_clean (ctx : Ctx) (v5 : Bool) (pos : Nat) (sub : Option Nat) (e : ElemX) (tl : List Str) (i : EIn)
    (h : ElemAdm ctx v5 e tl i) : (elemEvents ctx v5 pos sub e tl i).Clean := by
  have hv := admissible_no_error _ _ _ h.2
  unfold elemEvents
  have hl : (needsLookup e i && !e.defined) = false := by
    cases hn : needsLookup e i with
    | false => rfl
    | true => simp [h.1 hn]
  simp only [hl, Bool.false_eq_true, if_false]
  rw [hv, elemReports_nil e _ _ i (by rw [hv])]
  refine ⟨_, rfl, ?_⟩
  intro ev hev
  simp at hev
  subst hev
  rfl

/-! ### composites -/

/-- the components meet the sub-element definitions (component `i` against child `i`, `None` afterwards) -/
def KidsAdm (ctx : Ctx) (v5 : Bool) : List ElemX → List Str → Prop
  | [], _ => True
  | k :: ks, [] => ElemAdm ctx v5 k [] .absent ∧ KidsAdm ctx v5 ks []
  | k :: ks, v :: vs => ElemAdm ctx v5 k [] (.simple v) ∧ KidsAdm ctx v5 ks vs

theorem kidsEvents_clean (ctx : Ctx) (v5 : Bool) (pos : Nat) : ∀ (ks : List ElemX) (vs : List Str),
    KidsAdm ctx v5 ks vs → (kidsEvents ctx v5 pos ks vs).Clean := by
  intro ks
  induction ks with
  | nil => intro vs _; simp only [kidsEvents]; exact clean_ok_nil
  | cons k ks ih =>
    intro vs h
    cases vs with
    | nil => simp only [kidsEvents]; exact clean_andThen (elemEvents_clean _ _ _ _ _ _ _ h.1) (ih [] h.2)
    | cons v vs => simp only [kidsEvents]; exact clean_andThen (elemEvents_clean _ _ _ _ _ _ _ h.1) (ih vs h.2)

/-- a composite as the definition allows it: absent / all components empty when not required, or used, with no
    surplus component and admissible components -/
def CompAdm (ctx : Ctx) (v5 : Bool) (u : Usage) (kids : List ElemX) : Option (List Str) → Prop
  | none => u ≠ .R
  | some vs =>
    (allEmpty vs = true ∧ u ≠ .R) ∨
    (allEmpty vs = false ∧ u ≠ .N ∧ vs.length ≤ kids.length ∧ KidsAdm ctx v5 kids vs)

theorem compEvents_clean (ctx : Ctx) (v5 : Bool) (u : Usage) (seq : Nat) (nm rd : Str) (de : Option Str) (kids : List ElemX)
    (data : Option (List Str)) (h : CompAdm ctx v5 u kids data) : (compEvents ctx v5 u seq nm rd de kids data).Clean := by
  cases data with
  | none =>
    cases u with
    | R => exact absurd rfl h
    | S => exact clean_ok_nil
    | N => exact clean_ok_nil
  | some vs =>
    simp only [compEvents]
    rcases h with ⟨he, hu⟩ | ⟨he, hu, hlen, hk⟩
    · have : (allEmpty vs && (decide (u = .N) || decide (u = .S))) = true := by
        cases u <;> simp_all
      simp only [this, if_true]
      exact clean_ok_nil
    · have hne : anyNonEmpty vs = true := by rw [ElemValid.anyNonEmpty_eq, he]; rfl
      simp only [he, Bool.false_and, Bool.false_eq_true, if_false, hne, Bool.not_true, Bool.and_false]
      unfold compPresentEvents
      have h1 : (decide (u = .N) && !allEmpty vs) = false := by cases u <;> simp_all
      have h2 : ¬ vs.length > kids.length := by omega
      simp only [h1, Bool.false_eq_true, if_false, h2, decide_false, Bool.not_false]
      exact clean_andThen clean_ok_nil (kidsEvents_clean ctx v5 seq kids vs hk)

/-! ### the children of a segment -/

def ChildAbsentAdm (ctx : Ctx) (v5 : Bool) : ChildX → Prop
  | .elem x => ElemAdm ctx v5 x [] .absent
  | .comp u _ _ _ _ kids => CompAdm ctx v5 u kids none

/-- a simple element carries one component; a composite child any number -/
def ChildPresentAdm (ctx : Ctx) (v5 : Bool) (sid : Str) (i : Nat) (dt tl : List Str) (data : List Str) : ChildX → Prop
  | .elem x => ∃ v, data = [v] ∧ ElemAdm ctx v5 x (pickTl sid i x dt tl) (.simple v)
  | .comp u _ _ _ _ kids => CompAdm ctx v5 u kids (some data)

/-- the elements of a segment meet the definitions of its children (with the date/time formats selected by DTP02 and by
    the 1250 qualifiers exactly as `segment_if.is_valid` selects them) -/
def ChildrenAdm (ctx : Ctx) (v5 : Bool) (sid : Str) (v02 : Option Str) :
    Nat → List Str → List Str → List ChildX → List (List Str) → Prop
  | _, _, _, [], _ => True
  | i, dt, tl, c :: cs, [] => ChildAbsentAdm ctx v5 c ∧ ChildrenAdm ctx v5 sid v02 (i + 1) dt tl cs []
  | i, dt, tl, c :: cs, e :: es =>
    ChildPresentAdm ctx v5 sid i (stepDtype sid i v02 dt c) (stepTl tl c) e c ∧
      ChildrenAdm ctx v5 sid v02 (i + 1) (stepDtype sid i v02 dt c) (stepTl tl c) cs es

theorem childAbsent_clean (ctx : Ctx) (v5 : Bool) (c : ChildX) (h : ChildAbsentAdm ctx v5 c) :
    (childAbsent ctx v5 c).Clean := by
  cases c with
  | elem x => exact elemEvents_clean _ _ _ _ _ _ _ h
  | comp u seq nm rd de kids => simp only [childAbsent]; exact compEvents_clean _ _ _ _ _ _ _ _ _ h

theorem childPresent_clean (ctx : Ctx) (v5 : Bool) (sep : Char) (sid : Str) (i : Nat) (dt tl : List Str) (data : List Str)
    (c : ChildX) (h : ChildPresentAdm ctx v5 sid i dt tl data c) : (childPresent ctx v5 sep sid i dt tl data c).Clean := by
  cases c with
  | elem x =>
    obtain ⟨v, rfl, hv⟩ := h
    simp only [childPresent, elemAt, elemIn]
    exact elemEvents_clean _ _ _ _ _ _ _ hv
  | comp u seq nm rd de kids => simp only [childPresent]; exact compEvents_clean _ _ _ _ _ _ _ _ _ h

theorem childrenEvents_clean (ctx : Ctx) (v5 : Bool) (sep : Char) (sid : Str) (v02 : Option Str) :
    ∀ (cs : List ChildX) (i : Nat) (dt tl : List Str) (es : List (List Str)),
      ChildrenAdm ctx v5 sid v02 i dt tl cs es → (childrenEvents ctx v5 sep sid v02 i dt tl cs es).Clean := by
  intro cs
  induction cs with
  | nil => intro i dt tl es _; simp only [childrenEvents]; exact clean_ok_nil
  | cons c cs ih =>
    intro i dt tl es h
    cases es with
    | nil =>
      simp only [childrenEvents]
      exact clean_andThen (childAbsent_clean ctx v5 c h.1) (ih _ _ _ [] h.2)
    | cons e es =>
      simp only [childrenEvents]
      exact clean_andThen (childPresent_clean _ _ _ _ _ _ _ _ _ h.1) (ih _ _ _ es h.2)

/-! ### the whole segment -/

theorem notesEvents_clean (sd : SegDef) (sid : Str) (vals : List Str) : ∀ (ns : List Syn.Note),
    (∀ n ∈ ns, Syn.isSyntaxValid vals n = .valid) → (notesEvents sd sid vals ns).Clean := by
  intro ns
  induction ns with
  | nil => intro _; simp only [notesEvents]; exact clean_ok_nil
  | cons n ns ih =>
    intro h
    simp only [notesEvents, Syn.routeNote, h n (by simp), Syn.routeVerdict]
    exact clean_andThen ⟨[], by simp, Quiet.nil⟩ (ih (fun m hm => h m (List.mem_cons_of_mem _ hm)))

/-- a data segment that conforms to a segment definition: no surplus element, every element / composite admissible for
    its child definition, every syntax note of the definition satisfied (C14: `Syn.syntaxValid_iff`) -/
def SegAdm (ctx : Ctx) (v5 : Bool) (d : Delims) (sd : SegDef) (s : Seg) : Prop :=
  s.elems.length ≤ sd.children.length ∧
  ChildrenAdm ctx v5 s.id (gv d s 1) 0 [] [] sd.children s.elems ∧
  ∃ vals, SegText.formatComps (Pipeline.sepOf d s.id) s.elems = some vals ∧
    ∀ n ∈ sd.notes, Syn.isSyntaxValid vals n = .valid

/-- **a conforming segment validates: `node.is_valid` returns True and reports nothing** -/
theorem segEvents_clean (ctx : Ctx) (v5 : Bool) (d : Delims) (sd : SegDef) (s : Seg) (h : SegAdm ctx v5 d sd s) :
    (segEvents ctx v5 d sd s).Clean := by
  obtain ⟨hlen, hch, vals, hvals, hnotes⟩ := h
  unfold segEvents
  refine clean_andThen (clean_andThen ?_ (childrenEvents_clean _ _ _ _ _ _ _ _ _ _ hch)) ?_
  · unfold tooManyEvents
    have : ¬ s.elems.length > sd.children.length := by omega
    simp only [this, if_false]
    exact clean_ok_nil
  · rw [hvals]
    simp only [notesOn]
    exact notesEvents_clean sd s.id vals sd.notes hnotes

/-- the notes hypothesis in the wording of X12 (C14) -/
theorem notes_valid_of_satisfied (vals : List Str) (notes : List Syn.Note) (hwf : Syn.AllWF notes)
    (h : ∀ n ∈ notes, Syn.Satisfied (Syn.Present vals) n.code n.idx) : ∀ n ∈ notes, Syn.isSyntaxValid vals n = .valid :=
  fun n hn => (Syn.syntaxValid_iff vals n (hwf n hn).1 (hwf n hn).2).2 (h n hn)

end Pyx12Verif.Doc
