/-
C03 run level, missing mandatory segment: moving the generator cursor while the hole is open, and the part of the
derivation from the hole to the segment that reports it (`t_list`).
-/
import Pyx12Verif.Proofs.C03RunHSpec

namespace Pyx12Verif.WalkerGenW
open Pyx12Verif.MapSkel Pyx12Verif.Walker Pyx12Verif.WalkerGen

/-- the cursor steps over the required segment child `j` of the loop at `q` without an instance: the hole opens -/
theorem readyH_open {root : List Node} {cnt : Counter} {cur q : List Nat} {i j : Nat} (hr : ReadyAt root cnt cur q i j)
    (hij : i < j) {ch : List Node} (hch : chAt root q = some ch) {c0 : Node} (hc : ch[j]? = some c0)
    (hseg : c0.isSeg = true) (hu : c0.usage = 0) :
    Hole root cur q i j ch c0 ∧ ReadyAtH root cnt cur q j q i (j + 1) := by
  obtain ⟨h1, h2, h3, h4⟩ := hr
  refine ⟨⟨h1, hij, hch, hc, hseg, hu⟩, ⟨h1, by omega, List.prefix_refl _, fun _ => by omega, ?_, ?_⟩⟩
  · intro ch' hch' j' c hij' hj' hc' hne
    have : j' ≠ j := by intro e; subst e; exact hne rfl
    exact h3 ch' hch' j' c hij' (by omega) hc'
  · intro p i' hp hpc ch' hch' j' c hj' hc' _
    exact h4 p i' hp hpc ch' hch' j' c hj' hc'

theorem readyH_skip {root : List Node} {cnt : Counter} {cur q0 q : List Nat} {j0 i j : Nat}
    (R : ReadyAtH root cnt cur q0 j0 q i j)
    (hs : i < j → ∀ ch c, chAt root q = some ch → ch[j]? = some c → satisfied cnt (keyAt root q ++ [c.comp]) c = true) :
    ReadyAtH root cnt cur q0 j0 q i (j + 1) := by
  refine ⟨R.on, by have := R.le; omega, R.above, fun e => by have := R.past e; omega, ?_, R.deep⟩
  intro ch hch j' c hij' hj' hc hne
  rcases Nat.lt_or_ge j' j with hlt | hge
  · exact R.mid ch hch j' c hij' hlt hc hne
  · have : j' = j := by omega
    subst this
    exact hs hij' ch c hch hc

theorem allOptional_get {l : List Node} (h : allOptional l = true) {k : Nat} {c : Node} (hc : l[k]? = some c) :
    optional c = true := by
  induction l generalizing k with
  | nil => simp at hc
  | cons a r ih =>
    simp only [allOptional, Bool.and_eq_true] at h
    cases k with
    | zero => simp at hc; subst hc; exact h.1
    | succ n => simp at hc; exact ih h.2 hc

/-- all the remaining children are left out -/
theorem readyH_skip_all {root : List Node} {cnt : Counter} {cur q0 q : List Nat} {j0 i : Nat} {ch : List Node}
    (hch : chAt root q = some ch) : ∀ (n j : Nat), ReadyAtH root cnt cur q0 j0 q i j → allOptional (ch.drop j) = true →
      (ch.drop j).length = n → ReadyAtH root cnt cur q0 j0 q i (j + n)
  | 0, j, R, _, _ => by simpa using R
  | n + 1, j, R, hopt, hlen => by
    have hj : j < ch.length := by
      simp at hlen; omega
    have hd : ch.drop j = ch[j] :: ch.drop (j + 1) := by simp
    rw [hd] at hopt
    simp only [allOptional, Bool.and_eq_true] at hopt
    have R1 := readyH_skip R (by
      intro _ ch' c hch' hc
      rw [hch] at hch'; simp only [Option.some.injEq] at hch'; subst hch'
      have : c = ch[j] := by rw [List.getElem?_eq_getElem hj] at hc; simpa using hc.symm
      subst this
      exact satisfied_of_optional _ _ hopt.1)
    have := readyH_skip_all hch n (j + 1) R1 hopt.2 (by simp at hlen ⊢; omega)
    have e : j + (n + 1) = j + 1 + n := by omega
    rw [e]; exact this

/-- the instance with the hole (or an instance above it) ends: the cursor is at its loop node -/
theorem readyH_up {root : List Node} {cnt : Counter} {cur q0 q : List Nat} {j0 a i' n : Nat} {sub : List Node}
    (hsub : chAt root (q ++ [a]) = some sub) (R : ReadyAtH root cnt cur q0 j0 (q ++ [a]) i' n) (hn : sub.length ≤ n) :
    ReadyAtH root cnt cur q0 j0 q a a := by
  have hqq : q <+: q0 := List.IsPrefix.trans (List.prefix_append _ _) R.above
  refine ⟨List.IsPrefix.trans (List.prefix_append _ _) R.on, Nat.le_refl _, hqq, ?_, ?_, ?_⟩
  · intro e; subst e
    have := List.IsPrefix.length_le R.above; simp at this; omega
  · intro ch _ j' c h5 h6; omega
  · intro p i'' hp hpc ch hch j' c hj' hc hne
    by_cases hpe : p = q ++ [a]
    · subst hpe
      have : i'' = i' := path_idx_unique hpc R.on
      subst this
      rw [hsub] at hch; simp only [Option.some.injEq] at hch; subst hch
      have hlt : j' < sub.length := by
        rcases Nat.lt_or_ge j' sub.length with hh | hh
        · exact hh
        · rw [List.getElem?_eq_none hh] at hc; cases hc
      exact R.mid _ hsub j' c hj' (by omega) hc hne
    · apply R.deep p i'' _ hpc ch hch j' c hj' hc hne
      have hpcur : p <+: cur := List.IsPrefix.trans (List.prefix_append _ _) hpc
      have l1 := List.IsPrefix.length_le hp
      have hlenne : (q ++ [a]).length ≠ p.length := fun e => hpe (prefix_eq_of_length hp e).symm
      exact prefix_of_longer R.on hpcur (by simp at l1 hlenne ⊢; omega)

/-- past the loop node below which the hole is -/
theorem readyH_next {root : List Node} {cnt : Counter} {cur q0 q : List Nat} {j0 a : Nat}
    (R : ReadyAtH root cnt cur q0 j0 q a a) : ReadyAtH root cnt cur q0 j0 q a (a + 1) :=
  readyH_skip R (by intro hh; omega)

/-- the generator state while the hole is open: which node it is, where the walk stands relative to it -/
def OpenAt (root : List Node) (e : WErr) (c0 : Node) (cnt : Counter) (cur q : List Nat) (i j : Nat) : Prop :=
  ∃ q0 j0 i0 ch0, e = (ErrKind.mandatoryMissing, q0 ++ [j0]) ∧ Hole root cur q0 i0 j0 ch0 c0 ∧
    ReadyAtH root cnt cur q0 j0 q i j

set_option linter.unusedSectionVars false
section
variable {K : Consts} {root : List Node} (rootId : Nat) (h : MapOK K root)
include h

/-- **from the hole to the report**: children left out, then the child whose first segment reports the hole; the
    rest of the list is conformant -/
theorem t_list {c0 : Node} {same : Bool} : ∀ {lip : List Nat} {j : Nat} {rest : List Node} {x : Emit} {post : List Emit},
    TList K c0 same lip j rest x post →
    ∀ (q : List Nat) (i : Nat) (ch : List Node) (cnt : Counter) (cur : List Nat) (q0 : List Nat) (i0 j0 : Nat)
      (ch0 : List Node),
    lip = q → chAt root q = some ch → ch.drop j = rest → Inv root cnt cur → Hole root cur q0 i0 j0 ch0 c0 →
    ReadyAtH root cnt cur q0 j0 q i j → i < j → (q = q0 → same = true) →
    AfterX K root rootId cnt cur [] x post (ErrKind.mandatoryMissing, q0 ++ [j0]) (fun cnt' cur' =>
      (∃ i', i' < j + rest.length ∧ ReadyAt root cnt' cur' q i' (j + rest.length)) ∧
      StrictOff cnt cnt' (keyAt root q))
  | _, _, _, _, _, .skip (i := j) (c := c) (r := r) hopt hl, q, i, ch, cnt, cur, q0, i0, j0, ch0, hip, hch, hd, hinv, H, R,
      hij, hsame => by
    obtain ⟨hc, hd'⟩ := drop_cons_get hd
    have R1 := readyH_skip R (by
      intro _ ch' c' hch' hc'
      rw [hch] at hch'; simp only [Option.some.injEq] at hch'; subst hch'
      rw [hc] at hc'; simp only [Option.some.injEq] at hc'; subst hc'
      exact satisfied_of_optional _ _ hopt)
    have := t_list hl q i ch cnt cur q0 i0 j0 ch0 hip hch hd' hinv H R1 (by omega) hsame
    have e : j + (c :: r).length = j + 1 + r.length := by simp; omega
    rw [e]; exact this
  | _, _, _, _, _, .hitSeg (i := j) (sid := sid) (qq := qq) (p := p) (u := u) (m := m) (notes := notes) (ch := sch) (r := r)
      (s := s) hm hu hm0 hid hps hreps hlist, q, i, ch, cnt, cur, q0, i0, j0, ch0, hip, hch, hd, hinv, H, R, hij, hsame => by
    have hip' := hip.symm; subst hip'
    obtain ⟨hc, hd'⟩ := drop_cons_get hd
    obtain ⟨chx, hchx, hl⟩ := hinv.lev q i R.on
    rw [hch] at hchx; simp only [Option.some.injEq] at hchx; subst hchx
    have hz : cnt.get (keyAt root q ++ [(Node.seg sid qq p u m notes sch).comp]) = 0 :=
      hl.later j _ hij hc _ (List.prefix_refl _)
    obtain ⟨hn, hs⟩ := fire_seg rootId h hinv H R hch hc rfl hm hu
      (by simp only [Node.rep]; rw [hz]; omega) (Or.inr (Or.inl (by omega))) hid hps
    have hwf := wfAt_chAt (wfAt_root h.wf) hch
    have hinv1 := post_segH h hinv H R hch hc rfl (by
      intro e; subst e
      have hj0 := R.past rfl
      rw [H.ch] at hch; simp only [Option.some.injEq] at hch; subst hch
      have := posSorted_le hwf.pos H.get hc (by omega)
      have hp : (Node.seg sid qq p u m notes sch).pos = p := rfl
      rw [hp] at this ⊢; omega)
    have h1 : After K root rootId (cnt.incr (keyAt root q ++ [(Node.seg sid qq p u m notes sch).comp])) (q ++ [j]) [] (fun cnt' cur' =>
        ReadyAt root cnt' cur' q j j ∧ cnt'.get (keyAt root q ++ [(Node.seg sid qq p u m notes sch).comp]) = 1) :=
      After.nil hinv1 ⟨ready_here _ _ _ _, by rw [get_incr_same, hz]⟩
    have h2 := After.seq h1 (Q := fun cnt1 cnt' cur' =>
        (∃ i', i' ≤ j ∧ ReadyAt root cnt' cur' q i' (j + 1)) ∧ AgreeOff cnt1 cnt' (keyAt root q ++ [_]))
      (fun cnt1 cur1 hinv' ⟨hr1, hg1⟩ =>
        g_reps rootId h hreps q j j ch cnt1 cur1 rfl hch hc rfl hinv' hr1 hg1 (Or.inr (Or.inl (by omega))))
    have h3 := After.seq h2 (Q := fun cnt1 cnt' cur' =>
        (∃ i', i' < j + 1 + r.length ∧ ReadyAt root cnt' cur' q i' (j + 1 + r.length)) ∧
        StrictOff cnt1 cnt' (keyAt root q))
      (fun cnt1 cur1 hinv' ⟨⟨i', hi', hr1⟩, _⟩ =>
        g_list rootId h hlist q i' ch cnt1 cur1 rfl hch hd' hinv' hr1 (by omega) (Or.inr (Or.inl (by omega))))
    have hfin := AfterX.fault hn hs h3
    simp only [List.nil_append] at hfin
    refine ⟨hfin.1, hfin.2.1, ?_, ?_⟩
    · have := hfin.2.2.1
      simpa [Nat.add_assoc, Nat.add_comm 1] using this
    · have a1 : StrictOff cnt (cnt.incr (keyAt root q ++ [(Node.seg sid qq p u m notes sch).comp])) (keyAt root q) :=
        (agreeOff_incr _ _).strict
      have a2 := h2.2.2.2.strict
      have a3 := h3.2.2.2
      simp only [runCnt, List.nil_append] at a2 a3
      have := StrictOff.trans a1 (StrictOff.trans a2 a3)
      simpa [runCnt, runCur, hs] using this
  | _, _, _, _, _, .hitLoop (i := j) (lid := lid) (p := p) (u := u) (rp := rp) (w := w) (first := first) (rest := lrest)
      (r := r) (s := s) (o := o) hseg hm hu hrp hpos hlin hreps hlist, q, i, ch, cnt, cur, q0, i0, j0, ch0, hip, hch, hd, hinv, H, R,
      hij, hsame => by
    have hip' := hip.symm; subst hip'
    obtain ⟨hc, hd'⟩ := drop_cons_get hd
    obtain ⟨chx, hchx, hl⟩ := hinv.lev q i R.on
    rw [hch] at hchx; simp only [Option.some.injEq] at hchx; subst hchx
    have hz : cnt.get (keyAt root q ++ [(lid, 0)]) = 0 := hl.later j _ hij hc _ (List.prefix_refl _)
    obtain ⟨hn, hs⟩ := fire_loop rootId h hinv H R hij hch hc hseg hm hu (by rw [hz]; omega)
    have hwf := wfAt_chAt (wfAt_root h.wf) hch
    have hinv1 := post_loopH h hinv H R hch hc hseg (by
      intro e; subst e
      have hj0 := R.past rfl
      have hne := hpos (hsame rfl)
      rw [H.ch] at hch; simp only [Option.some.injEq] at hch; subst hch
      have := posSorted_le hwf.pos H.get hc (by omega)
      have hp : (Node.loop lid p u rp w (first :: lrest)).pos = p := rfl
      rw [hp] at this; omega)
    have hsub : chAt root (q ++ [j]) = some (first :: lrest) := by rw [chAt_snoc hch, hc]
    have hkey : keyAt root (q ++ [j]) = keyAt root q ++ [(lid, 0)] := keyAt_snoc hch hc
    have hr1 : ReadyAt root (enterCnt cnt (keyAt root q ++ [(lid, 0)]) first.comp) (q ++ [j] ++ [0]) (q ++ [j]) 0 1 :=
      ready_skip (ready_here _ _ _ _) (by intro hh; omega)
    have h1 := g_list rootId h hlin (q ++ [j]) 0 (first :: lrest) _ _ rfl hsub (by simp) hinv1 hr1 (by omega)
      (Or.inr (Or.inl (by omega)))
    have h1' : After K root rootId (enterCnt cnt (keyAt root q ++ [(lid, 0)]) first.comp) (q ++ [j] ++ [0]) o (fun cnt' cur' =>
        ReadyAt root cnt' cur' q j j ∧ cnt'.get (keyAt root q ++ [(lid, 0)]) = 1 ∧
        AgreeOff (enterCnt cnt (keyAt root q ++ [(lid, 0)]) first.comp) cnt' (keyAt root q ++ [(lid, 0)])) := by
      refine After.mono h1 ?_
      intro cnt' cur' ⟨⟨i', hi', hra⟩, hso⟩
      rw [hkey] at hso
      refine ⟨ready_up hsub hra (by simp; omega), ?_, hso.agree⟩
      rw [hso _ (fun hh => hh.2 rfl), get_enterCnt_self, hz]
    have h2 := After.seq h1' (Q := fun cnt1 cnt' cur' =>
        (∃ i', i' ≤ j ∧ ReadyAt root cnt' cur' q i' (j + 1)) ∧ AgreeOff cnt1 cnt' (keyAt root q ++ [(lid, 0)]))
      (fun cnt1 cur1 hinv' ⟨hr1, hg1, _⟩ =>
        g_reps rootId h hreps q j j ch cnt1 cur1 rfl hch hc (by simp [counted, firstIsSeg, hseg]) hinv' hr1 hg1
          (Or.inr (Or.inl (by omega))))
    have h3 := After.seq h2 (Q := fun cnt1 cnt' cur' =>
        (∃ i', i' < j + 1 + r.length ∧ ReadyAt root cnt' cur' q i' (j + 1 + r.length)) ∧
        StrictOff cnt1 cnt' (keyAt root q))
      (fun cnt1 cur1 hinv' ⟨⟨i', hi', hr1⟩, _⟩ =>
        g_list rootId h hlist q i' ch cnt1 cur1 rfl hch hd' hinv' hr1 (by omega) (Or.inr (Or.inl (by omega))))
    have hfin := AfterX.fault hn hs h3
    refine ⟨hfin.1, hfin.2.1, ?_, ?_⟩
    · have := hfin.2.2.1
      simpa [Nat.add_assoc, Nat.add_comm 1] using this
    · have a1 : StrictOff cnt (enterCnt cnt (keyAt root q ++ [(lid, 0)]) first.comp) (keyAt root q) :=
        (agreeOff_enter _ _ _).strict
      have a1' := h1'.2.2.2.2.strict
      have a2 := h2.2.2.2.strict
      have a3 := h3.2.2.2
      have := StrictOff.trans a1 (StrictOff.trans a1' (StrictOff.trans a2 a3))
      simpa [runCnt, runCur, hs, runCnt_append, runCur_append] using this

end

end Pyx12Verif.WalkerGenW
