/-
One `Write` of each kind of segment, and what the reader does with what was written.
-/
import Pyx12Verif.Proofs.WriterBasics
import Pyx12Verif.Proofs.EnvelopeBody

namespace Pyx12Verif.Writer
open Pyx12Verif.Envelope (RState SegView Kind Fixes Str Level Err idISA idIEA idGS idGE idST idSE idHL idLX idCLM decimal
  isEnvId mkISA mkGS mkST mkSE mkGE mkIEA pyInt fieldInt natInt baseStep step dupErr SameEnv Runs)
open Pyx12Verif.SegText (Seg Delims joinWith normComp splitOn)

/-! ### element values -/

theorem getValue_wf (term : Char) (s : Seg) (hw : WfSeg s) (i : Nat) :
    getValue term s i = .ok (valueAt term s i) := by
  unfold getValue valueAt
  cases h : s.elems[i]? with
  | none => simp
  | some c =>
    have hm : c ∈ s.elems := List.mem_of_getElem? h
    simp [SegText.formatComp_eq term c (hw c hm)]

theorem viewOf_ISA (d : Delims) (chk : Bool) (s : Seg) (hw : WfSeg s) (hid : s.id = idISA) (h16 : s.elems.length = 16) :
    viewOf d chk s = .ok (mkISA (ctlOf d s)) := by
  simp [viewOf, viewISA, hid, h16, getValue_wf _ s hw, Outcome.bind, mkISA, ctlOf]

theorem viewOf_GS (d : Delims) (chk : Bool) (s : Seg) (hw : WfSeg s) (hid : s.id = idGS) :
    viewOf d chk s = .ok (mkGS (ctlOf d s)) := by
  have h1 : idGS ≠ idISA := by decide
  simp [viewOf, hid, h1, getValue_wf _ s hw, Outcome.bind, mkGS, ctlOf]

theorem viewOf_ST (d : Delims) (chk : Bool) (s : Seg) (hw : WfSeg s) (hid : s.id = idST) :
    viewOf d chk s = .ok (mkST (ctlOf d s)) := by
  have h1 : idST ≠ idISA := by decide
  have h2 : idST ≠ idGS := by decide
  simp [viewOf, hid, h1, h2, getValue_wf _ s hw, Outcome.bind, mkST, ctlOf]

theorem trailer_cases {id : Str} (h : isTrailerId id = true) : id = idIEA ∨ id = idGE ∨ id = idSE := by
  simp only [isTrailerId, Bool.or_eq_true, beq_iff_eq] at h
  rcases h with (h | h) | h
  · exact Or.inl h
  · exact Or.inr (Or.inl h)
  · exact Or.inr (Or.inr h)

theorem viewOf_trailer (d : Delims) (s : Seg) (hid : isTrailerId s.id = true) :
    viewOf d false s = .ok ⟨s.id, none, none, false⟩ := by
  rcases trailer_cases hid with h | h | h <;>
    simp [viewOf, h, idISA, idIEA, idGS, idGE, idST, idSE, idHL]

/-- any other segment: some view with the same identifier -/
theorem viewOf_other (d : Delims) (s : Seg) (hw : WfSeg s) :
    ∃ v, viewOf d false s = .ok v ∧ v.id = s.id := by
  unfold viewOf viewISA viewHL
  simp only [getValue_wf _ s hw, Outcome.bind]
  repeat' split
  all_goals exact ⟨_, rfl, rfl⟩

/-! ### `_parse_segment` on headers, trailers, body -/

theorem baseStep_ISA (s : RState) (c : Option Str) :
    baseStep Fixes.all s (mkISA c) =
      .ok ({ s with loops := (Kind.isa, c) :: s.loops, isaIds := c :: s.isaIds, gsCount := 0, gsIds := [] },
           dupErr Err.isa025 c s.isaIds) := by
  simp [baseStep, Envelope.baseBranch, Envelope.baseIsa, Envelope.countSeg, isEnvId, Envelope.Outcome.bind, mkISA, dupErr,
    idST, idISA, idGS, idIEA, idGE, idSE]
  rfl

theorem baseStep_GS (s : RState) (c : Option Str) :
    baseStep Fixes.all s (mkGS c) =
      .ok ({ s with gsCount := s.gsCount + 1, gsIds := c :: s.gsIds, loops := (Kind.gs, c) :: s.loops,
                    stCount := 0, stIds := [] },
           dupErr Err.gs6 c s.gsIds) := by
  simp [baseStep, Envelope.baseBranch, Envelope.baseGs, Envelope.countSeg, isEnvId, Envelope.Outcome.bind, mkGS, dupErr,
    idST, idISA, idGS, idIEA, idGE, idSE]
  rfl

theorem baseStep_ST (s : RState) (c : Option Str) :
    baseStep Fixes.all s (mkST c) =
      .ok ({ s with hlStack := [], hlCount := 0, stCount := s.stCount + 1, stIds := c :: s.stIds,
                    loops := (Kind.st, c) :: s.loops, segCount := 1 },
           dupErr Err.st23 c s.stIds) := by
  simp [baseStep, Envelope.baseBranch, Envelope.baseSt, Envelope.countSeg, isEnvId, Envelope.Outcome.bind, mkST, dupErr,
    idST, idISA, idGS, idIEA, idGE, idSE]
  rfl

/-- a segment that is no trailer: the reader's step is the shared bookkeeping alone -/
theorem step_eq_baseStep (s : RState) (v : SegView) (h : isTrailerId v.id = false) :
    step Fixes.all s v = baseStep Fixes.all s v := by
  simp only [isTrailerId, Bool.or_eq_false_iff, beq_eq_false_iff_ne] at h
  obtain ⟨⟨h1, h2⟩, h3⟩ := h
  unfold step
  cases hb : baseStep Fixes.all s v with
  | ok a => simp [Envelope.Outcome.bind, Envelope.trailerStep, h1, h2, h3]
  | raised => rfl
  | crash e => rfl

def isHlErr : Err → Bool
  | .hl1 | .hl2 => true
  | _ => false

/-- a body segment with `check_837_lx` off: the envelope bookkeeping is untouched, the segment is counted, only HL
errors can be raised -/
theorem body_step_env (s : RState) (v : SegView) (henv : isEnvId v.id = false) (hc : s.chk837 = false) :
    ∃ s' es, step Fixes.all s v = .ok (s', es) ∧ SameEnv s s' ∧ s'.segCount = s.segCount + 1 ∧
      ∀ e ∈ es, isHlErr e = true := by
  by_cases hHL : v.id = idHL
  · refine ⟨_, _, Envelope.step_HL s v hHL, ⟨rfl, rfl, rfl, rfl, rfl, rfl, rfl⟩, rfl, ?_⟩
    intro e he
    simp only [Envelope.hlStepErrs, List.mem_append] at he
    rcases he with he | he
    · split at he <;> simp at he; subst he; rfl
    · split at he
      · simp at he
      · split at he <;> simp at he; subst he; rfl
  · refine ⟨_, _, Envelope.step_other s v henv hHL (fun h => by rw [hc] at h; cases h),
      ⟨rfl, rfl, rfl, rfl, rfl, rfl, rfl⟩, rfl, ?_⟩
    intro e he; cases he

theorem not_trailer_of_not_env {i : Str} (h : isEnvId i = false) : isTrailerId i = false := by
  obtain ⟨_, h2, _, h4, _, h6⟩ := Envelope.not_env h
  simp [isTrailerId, h2, h4, h6]

/-! ### `Write` -/

theorem header_not_trailer {i : Str} (h : i = idISA ∨ i = idGS ∨ i = idST) :
    i ≠ idIEA ∧ i ≠ idGE ∧ i ≠ idSE ∧ i ≠ idLX := by
  rcases h with h | h | h <;> subst h <;> decide

theorem write_ISA (c : Cfg) (w : RState) (s : Seg) (hw : WfSeg s) (hid : s.id = idISA) (h16 : s.elems.length = 16) :
    write c w s =
      .ok ({ w with loops := (Kind.isa, ctlOf c.d s) :: w.loops, isaIds := ctlOf c.d s :: w.isaIds, gsCount := 0,
                    gsIds := [] },
           [isaOut c s (valueAt c.d.ele s 11)]) := by
  obtain ⟨h1, h2, h3, h4⟩ := header_not_trailer (Or.inl hid)
  simp only [write, viewOf_ISA c.d _ s hw hid h16, Outcome.bind, baseStep_ISA, lift, emitFor, h1, h2, h3, h4,
    and_false, if_false]
  rw [if_pos hid]
  simp only [getValue_wf _ s hw]

theorem write_GS (c : Cfg) (w : RState) (s : Seg) (hw : WfSeg s) (hid : s.id = idGS) :
    write c w s =
      .ok ({ w with gsCount := w.gsCount + 1, gsIds := ctlOf c.d s :: w.gsIds, loops := (Kind.gs, ctlOf c.d s) :: w.loops,
                    stCount := 0, stIds := [] },
           [s]) := by
  obtain ⟨h1, h2, h3, h4⟩ := header_not_trailer (Or.inr (Or.inl hid))
  have h5 : s.id ≠ idISA := by rw [hid]; decide
  simp only [write, viewOf_GS c.d _ s hw hid, Outcome.bind, baseStep_GS, lift, emitFor, h1, h2, h3, h4, h5,
    and_false, if_false]

theorem write_ST (c : Cfg) (w : RState) (s : Seg) (hw : WfSeg s) (hid : s.id = idST) :
    write c w s =
      .ok ({ w with hlStack := [], hlCount := 0, stCount := w.stCount + 1, stIds := ctlOf c.d s :: w.stIds,
                    loops := (Kind.st, ctlOf c.d s) :: w.loops, segCount := 1 },
           [s]) := by
  obtain ⟨h1, h2, h3, h4⟩ := header_not_trailer (Or.inr (Or.inr hid))
  have h5 : s.id ≠ idISA := by rw [hid]; decide
  simp only [write, viewOf_ST c.d _ s hw hid, Outcome.bind, baseStep_ST, lift, emitFor, h1, h2, h3, h4, h5,
    and_false, if_false]

/-- a body segment is written as it is; the envelope bookkeeping is untouched, the segment is counted -/
theorem write_body (c : Cfg) (w : RState) (s : Seg) (hw : WfSeg s) (henv : isEnvId s.id = false)
    (hc : w.chk837 = false) :
    ∃ w', write c w s = .ok (w', [s]) ∧ SameEnv w w' ∧ w'.segCount = w.segCount + 1 := by
  obtain ⟨v, hv, hvid⟩ := viewOf_other c.d s hw
  have henv' : isEnvId v.id = false := by rw [hvid]; exact henv
  obtain ⟨w', es, hstep, hsame, hcnt, _⟩ := body_step_env w v henv' hc
  rw [step_eq_baseStep w v (not_trailer_of_not_env henv')] at hstep
  obtain ⟨e1, e2, e3, e4, e5, e6⟩ := Envelope.not_env henv
  refine ⟨w', ?_, hsame, hcnt⟩
  have hchk : w'.chk837 = false := by rw [hsame.chk837]; exact hc
  simp only [write, hc, hv, Outcome.bind, hstep, lift, emitFor, e1, e2, e4, e6, hchk, Bool.false_eq_true, false_and,
    if_false]

theorem write_trailer (c : Cfg) (w : RState) (s : Seg) (hid : isTrailerId s.id = true) (hc : w.chk837 = false) :
    write c w s =
      .ok (if s.id = idIEA then popToLoop c.d .isa w else if s.id = idGE then popToLoop c.d .gs w
           else popToLoop c.d .st w) := by
  have hb : baseStep Fixes.all w ⟨s.id, none, none, false⟩ = .ok (w, []) := by
    rcases trailer_cases hid with h | h | h
    · exact Envelope.baseStep_trailer w _ Kind.isa (by simp [Envelope.trailerKind, h])
    · exact Envelope.baseStep_trailer w _ Kind.gs (by simp [Envelope.trailerKind, h]; decide)
    · exact Envelope.baseStep_trailer w _ Kind.st (by simp [Envelope.trailerKind, h]; decide)
  simp only [write, hc, viewOf_trailer c.d s hid, Outcome.bind, hb, lift, emitFor]
  rcases trailer_cases hid with h | h | h
  · simp [h]
  · have : idGE ≠ idIEA := by decide
    simp [h, this]
  · have h1 : idSE ≠ idIEA := by decide
    have h2 : idSE ≠ idGE := by decide
    simp [h, h1, h2]

/-! ### what the reader sees of written segments -/

theorem valueAt_single (t : Char) (id : Str) (a b : Str) :
    valueAt t ⟨id, [[a], [b]]⟩ 0 = some a ∧ valueAt t ⟨id, [[a], [b]]⟩ 1 = some b := by
  simp [valueAt, SegText.normComp_single, joinWith]

theorem rview_trailer (d : Delims) (id : Str) (hid : isTrailerId id = true) (a b : Str) :
    rview d ⟨id, [[a], [b]]⟩ = ⟨id, some a, some b, false⟩ := by
  obtain ⟨h0, h1⟩ := valueAt_single d.sub id a b
  rcases trailer_cases hid with h | h | h <;> subst h
  · have e1 : idIEA ≠ idISA := by decide
    have e2 : idIEA ≠ idGS := by decide
    have e3 : idIEA ≠ idST := by decide
    simp only [rview, e1, e2, e3, if_false, hid, or_true, if_true, h0, h1]
  · have e1 : idGE ≠ idISA := by decide
    have e2 : idGE ≠ idGS := by decide
    have e3 : idGE ≠ idST := by decide
    simp only [rview, e1, e2, e3, if_false, hid, or_true, if_true, h0, h1]
  · have e1 : idSE ≠ idISA := by decide
    have e2 : idSE ≠ idGS := by decide
    have e3 : idSE ≠ idST := by decide
    simp only [rview, e1, e2, e3, if_false, hid, or_true, if_true, h0, h1]

theorem rview_id (d : Delims) (s : Seg) : (rview d s).id = s.id := by
  unfold rview
  repeat' split
  all_goals rfl

theorem rview_GS (d : Delims) (s : Seg) (hid : s.id = idGS) : rview d s = mkGS (ctlOf d s) := by
  have h1 : idGS ≠ idISA := by decide
  simp [rview, ctlOf, hid, h1, mkGS]

theorem rview_ST (d : Delims) (s : Seg) (hid : s.id = idST) : rview d s = mkST (ctlOf d s) := by
  have h1 : idST ≠ idISA := by decide
  have h2 : idST ≠ idGS := by decide
  simp [rview, ctlOf, hid, h1, h2, mkST]

/-- the ISA as written (ISA11 / ISA16 replaced) still shows its control number and its 16 elements -/
theorem rview_isaOut (c : Cfg) (s : Seg) (hid : s.id = idISA) (h16 : s.elems.length = 16) (icvn : Option Str) :
    rview c.d (isaOut c s icvn) = mkISA (ctlOf c.d s) := by
  have hlen : (isaOut c s icvn).elems.length = 16 := by
    unfold isaOut
    split <;> simp [h16]
  have h12 : (isaOut c s icvn).elems[12]? = s.elems[12]? := by
    unfold isaOut
    split <;> simp
  have hid' : (isaOut c s icvn).id = idISA := hid
  simp only [rview, hid', if_true, hlen, valueAt, h12, ctlOf, hid, mkISA]

end Pyx12Verif.Writer
