/-
Helper lemmas for `Props/DocTotal2.lean`, error-tree side: which `AttributeError` sites of `err_handler` remain reachable once
an interchange node, a current segment node and a current element node exist (`Good`), and how the "current" pointers move.

The pointers are only ever SET by the handler (`add_isa_loop`, `add_gs_loop`, `add_st_loop`, `add_seg`, `add_ele`, the close
methods), never cleared; so after the first `add_isa_loop` / `add_ele` six of the twelve sites are dead, and the other six
need a missing GROUP or SET pointer.
-/
import Pyx12Verif.Proofs.DocRun

namespace Pyx12Verif.Doc
open Pyx12Verif

/-- interchange node, current segment node and current element node exist -/
def Good (s : ErrTree.State) : Prop :=
  s.curIsa ≠ none ∧ s.curSeg ≠ ErrTree.SegPtr.none ∧ s.curEle ≠ ErrTree.ElePtr.none

def isAddIsa : Event → Bool
  | .addIsa _ => true
  | _ => false
def isAddGs : Event → Bool
  | .addGs _ => true
  | _ => false
def isAddEle : Event → Bool
  | .addEle _ _ _ => true
  | _ => false
def isGsError : Event → Bool
  | .gsError _ => true
  | _ => false

theorem addCurSeg_props (s s1 : ErrTree.State) (h : ErrTree.addCurSeg s = some s1) :
    s1.curIsa = s.curIsa ∧ s1.curGs = s.curGs ∧ s1.curSt = s.curSt ∧ s1.curEle = s.curEle ∧
      (∃ x, s1.curSeg = .host x) := by
  unfold ErrTree.addCurSeg at h
  cases hc : s.curSeg with
  | none => rw [hc] at h; cases h
  | host x =>
    rw [hc] at h
    injection h with h
    subst h
    exact ⟨rfl, rfl, rfl, rfl, x, hc⟩
  | pending sg =>
    rw [hc] at h
    cases hs : s.curSt with
    | none => rw [hs] at h; cases h
    | some p =>
      rw [hs] at h
      injection h with h
      subst h
      exact ⟨rfl, rfl, rfl, rfl, _, rfl⟩

/-- how one successful handler call moves the pointers -/
theorem step_ok_props (s s' : ErrTree.State) (e : Event) (h : ErrTree.step s e = .ok s') :
    (s.curIsa ≠ none → s'.curIsa ≠ none) ∧ (s.curGs ≠ none → s'.curGs ≠ none) ∧ (s.curSt ≠ none → s'.curSt ≠ none) ∧
    (s.curSeg ≠ ErrTree.SegPtr.none → s'.curSeg ≠ ErrTree.SegPtr.none) ∧
    (s.curEle ≠ ErrTree.ElePtr.none → s'.curEle ≠ ErrTree.ElePtr.none) ∧
    (isAddIsa e = true → s'.curIsa ≠ none ∧ s'.curSeg ≠ ErrTree.SegPtr.none) ∧
    (isAddGs e = true → s'.curGs ≠ none) ∧ (isAddSt e = true → s'.curSt ≠ none) ∧
    (isAddEle e = true → s'.curEle ≠ ErrTree.ElePtr.none) ∧ (isGsError e = true → s.curGs ≠ none) := by
  cases e with
  | addIsa d =>
    simp only [ErrTree.step, ErrTree.Res.ok.injEq] at h
    subst h
    simp [ErrTree.addIsaLoop, isAddIsa, isAddGs, isAddSt, isAddEle, isGsError]
  | addGs d =>
    simp only [ErrTree.step, ErrTree.addGsLoop] at h
    cases hi : s.curIsa with
    | none => rw [hi] at h; cases h
    | some i =>
      rw [hi] at h
      simp only [ErrTree.Res.ok.injEq] at h
      subst h
      simp [isAddIsa, isAddGs, isAddSt, isAddEle, isGsError, hi]
  | addSt d =>
    simp only [ErrTree.step, ErrTree.addStLoop] at h
    cases hg : s.curGs with
    | none => rw [hg] at h; cases h
    | some p =>
      rw [hg] at h
      simp only [ErrTree.Res.ok.injEq] at h
      subst h
      simp [isAddIsa, isAddGs, isAddSt, isAddEle, isGsError, hg]
  | addSeg a b c =>
    simp only [ErrTree.step, ErrTree.Res.ok.injEq] at h
    subst h
    simp [ErrTree.addSeg, isAddIsa, isAddGs, isAddSt, isAddEle, isGsError]
  | addEle a b c =>
    simp only [ErrTree.step, ErrTree.addEle] at h
    cases hc : s.curSeg with
    | none => rw [hc] at h; cases h
    | host x =>
      rw [hc] at h
      simp only [ErrTree.Res.ok.injEq] at h
      subst h
      simp [isAddIsa, isAddGs, isAddSt, isAddEle, isGsError, hc]
    | pending x =>
      rw [hc] at h
      simp only [ErrTree.Res.ok.injEq] at h
      subst h
      simp [isAddIsa, isAddGs, isAddSt, isAddEle, isGsError, hc]
  | isaError c =>
    simp only [ErrTree.step, ErrTree.isaError] at h
    cases hi : s.curIsa with
    | none => rw [hi] at h; cases h
    | some i =>
      rw [hi] at h
      simp only [ErrTree.Res.ok.injEq] at h
      subst h
      simp [isAddIsa, isAddGs, isAddSt, isAddEle, isGsError, hi]
  | gsError c =>
    simp only [ErrTree.step, ErrTree.gsError] at h
    cases hg : s.curGs with
    | none => rw [hg] at h; cases h
    | some p =>
      rw [hg] at h
      simp only [ErrTree.Res.ok.injEq] at h
      subst h
      simp [isAddIsa, isAddGs, isAddSt, isAddEle, isGsError, hg]
  | stError c =>
    simp only [ErrTree.step, ErrTree.stError] at h
    cases hg : s.curSt with
    | none => rw [hg] at h; cases h
    | some p =>
      rw [hg] at h
      simp only [ErrTree.Res.ok.injEq] at h
      subst h
      simp [isAddIsa, isAddGs, isAddSt, isAddEle, isGsError, hg]
  | segError c v =>
    simp only [ErrTree.step, ErrTree.Res.ok.injEq] at h
    subst h
    simp only [isAddIsa, isAddGs, isAddSt, isAddEle, isGsError, Bool.false_eq_true, false_imp_iff, and_true]
    unfold ErrTree.segError
    cases ha : ErrTree.addCurSeg s with
    | none => exact ⟨id, id, id, id, id⟩
    | some s1 =>
      obtain ⟨a1, a2, a3, a4, x, a5⟩ := addCurSeg_props s s1 ha
      simp only
      cases hs : ErrTree.segAddError s1 { code := c, value := v } with
      | none =>
        simp only [a1, a2, a3, a4, a5]
        exact ⟨id, id, id, fun _ => by simp, id⟩
      | some s2 =>
        simp only
        unfold ErrTree.segAddError at hs
        rw [a5] at hs
        cases x with
        | seg i g st k =>
          simp only [Option.some.injEq] at hs
          subst hs
          simp only [a1, a2, a3, a4, a5]
          exact ⟨id, id, id, fun _ => by simp, id⟩
        | isa i => cases hs
        | gs i g => cases hs
        | st i g k => cases hs
  | eleError c m v =>
    simp only [ErrTree.step, ErrTree.eleError] at h
    simp only [isAddIsa, isAddGs, isAddSt, isAddEle, isGsError, Bool.false_eq_true, false_imp_iff, and_true]
    cases ha : ErrTree.addCurSeg s with
    | none => simp only [ha] at h; cases h
    | some s1 =>
      obtain ⟨a1, a2, a3, a4, x, a5⟩ := addCurSeg_props s s1 ha
      simp only [ha, ErrTree.eleErrorLinked, a5] at h
      cases he : s1.curEle with
      | none => simp only [he] at h; cases h
      | linked hh =>
        simp only [he] at h
        simp only [ErrTree.Res.ok.injEq] at h
        subst h
        simp only [a1, a2, a3, a5, he]
        exact ⟨id, id, id, fun _ => by simp, fun _ => by simp⟩
      | pending ee =>
        simp only [he] at h
        simp only [ErrTree.Res.ok.injEq] at h
        subst h
        simp only [a1, a2, a3, a5]
        exact ⟨id, id, id, fun _ => by simp, fun _ => by simp⟩
  | closeSt =>
    simp only [ErrTree.step, ErrTree.closeStLoop] at h
    cases hg : s.curSt with
    | none => rw [hg] at h; cases h
    | some p =>
      rw [hg] at h
      simp only [ErrTree.Res.ok.injEq] at h
      subst h
      simp [isAddIsa, isAddGs, isAddSt, isAddEle, isGsError, hg]
  | closeGs ge recv =>
    simp only [ErrTree.step, ErrTree.closeGsLoop] at h
    cases hg : s.curGs with
    | none => rw [hg] at h; cases h
    | some p =>
      rw [hg] at h
      simp only [ErrTree.Res.ok.injEq] at h
      subst h
      simp [isAddIsa, isAddGs, isAddSt, isAddEle, isGsError, hg]
  | closeIsa =>
    simp only [ErrTree.step, ErrTree.closeIsaLoop] at h
    cases hg : s.curIsa with
    | none => rw [hg] at h; cases h
    | some p =>
      rw [hg] at h
      simp only [ErrTree.Res.ok.injEq] at h
      subst h
      simp [isAddIsa, isAddGs, isAddSt, isAddEle, isGsError, hg]

theorem step_good (s s' : ErrTree.State) (e : Event) (hg : Good s) (h : ErrTree.step s e = .ok s') : Good s' := by
  obtain ⟨p1, _, _, p4, p5, _⟩ := step_ok_props s s' e h
  exact ⟨p1 hg.1, p4 hg.2.1, p5 hg.2.2⟩

/-- the sites that stay reachable in a `Good` state, with what they need -/
inductive Reach (s : ErrTree.State) (e : Event) : ErrTree.Site → Prop
  | gsErr (c : Str) : e = .gsError c → s.curGs = none → Reach s e .gsErrorNoGs
  | stErr (c : Str) : e = .stError c → s.curSt = none → Reach s e .stErrorNoSt
  | eleErr (c m : Str) (v : Option Str) : e = .eleError c m v → s.curSt = none → Reach s e .eleErrorNoSt
  | addSt (d : ErrTree.StData) : e = .addSt d → s.curGs = none → Reach s e .addStNoGs
  | closeSt : e = .closeSt → s.curSt = none → Reach s e .closeStNoSt
  | closeGs (g : ErrTree.GeCount) (r : Nat) : e = .closeGs g r → s.curGs = none → Reach s e .closeGsNoGs

theorem step_crash_good (s : ErrTree.State) (e : Event) (c : ErrTree.Site) (hg : Good s)
    (h : ErrTree.step s e = .crash c) : Reach s e c := by
  obtain ⟨g1, g2, g3⟩ := hg
  cases e with
  | addIsa d => cases h
  | addGs d =>
    simp only [ErrTree.step, ErrTree.addGsLoop] at h
    cases hi : s.curIsa with
    | none => exact absurd hi g1
    | some i => rw [hi] at h; cases h
  | addSt d =>
    simp only [ErrTree.step, ErrTree.addStLoop] at h
    cases hx : s.curGs with
    | none => rw [hx] at h; injection h with h; subst h; exact .addSt d rfl hx
    | some p => rw [hx] at h; cases h
  | addSeg a b c => cases h
  | addEle a b c =>
    simp only [ErrTree.step, ErrTree.addEle] at h
    cases hc : s.curSeg with
    | none => exact absurd hc g2
    | host x => rw [hc] at h; cases h
    | pending x => rw [hc] at h; cases h
  | isaError c =>
    simp only [ErrTree.step, ErrTree.isaError] at h
    cases hi : s.curIsa with
    | none => exact absurd hi g1
    | some i => rw [hi] at h; cases h
  | gsError c =>
    simp only [ErrTree.step, ErrTree.gsError] at h
    cases hx : s.curGs with
    | none => rw [hx] at h; injection h with h; subst h; exact .gsErr c rfl hx
    | some p => rw [hx] at h; cases h
  | stError c =>
    simp only [ErrTree.step, ErrTree.stError] at h
    cases hx : s.curSt with
    | none => rw [hx] at h; injection h with h; subst h; exact .stErr c rfl hx
    | some p => rw [hx] at h; cases h
  | segError c v => cases h
  | eleError cc m v =>
    simp only [ErrTree.step, ErrTree.eleError] at h
    cases ha : ErrTree.addCurSeg s with
    | none =>
      simp only [ha] at h
      injection h with h
      subst h
      refine .eleErr cc m v rfl ?_
      unfold ErrTree.addCurSeg at ha
      cases hc : s.curSeg with
      | none => exact absurd hc g2
      | host x => rw [hc] at ha; cases ha
      | pending sg =>
        rw [hc] at ha
        cases hs : s.curSt with
        | none => rfl
        | some p => rw [hs] at ha; cases ha
    | some s1 =>
      obtain ⟨_, _, _, a4, x, a5⟩ := addCurSeg_props s s1 ha
      simp only [ha, ErrTree.eleErrorLinked, a5] at h
      cases he : s1.curEle with
      | none => rw [a4] at he; exact absurd he g3
      | linked hh => simp only [he] at h; cases h
      | pending ee => simp only [he] at h; cases h
  | closeSt =>
    simp only [ErrTree.step, ErrTree.closeStLoop] at h
    cases hx : s.curSt with
    | none => rw [hx] at h; injection h with h; subst h; exact .closeSt rfl hx
    | some p => rw [hx] at h; cases h
  | closeGs ge recv =>
    simp only [ErrTree.step, ErrTree.closeGsLoop] at h
    cases hx : s.curGs with
    | none => rw [hx] at h; injection h with h; subst h; exact .closeGs ge recv rfl hx
    | some p => rw [hx] at h; cases h
  | closeIsa =>
    simp only [ErrTree.step, ErrTree.closeIsaLoop] at h
    cases hi : s.curIsa with
    | none => exact absurd hi g1
    | some i => rw [hi] at h; cases h

/-! ### runs -/

theorem run_ok_props : ∀ (evs : List Event) (s s' : ErrTree.State), ErrTree.run s evs = .ok s' →
    (s.curIsa ≠ none → s'.curIsa ≠ none) ∧ (s.curGs ≠ none → s'.curGs ≠ none) ∧ (s.curSt ≠ none → s'.curSt ≠ none) ∧
    (s.curSeg ≠ ErrTree.SegPtr.none → s'.curSeg ≠ ErrTree.SegPtr.none) ∧
    (s.curEle ≠ ErrTree.ElePtr.none → s'.curEle ≠ ErrTree.ElePtr.none) ∧
    ((∃ e ∈ evs, isAddGs e = true) → s'.curGs ≠ none) ∧ ((∃ e ∈ evs, isAddSt e = true) → s'.curSt ≠ none) ∧
    (s'.curGs = none → ∀ e ∈ evs, isGsError e = false) := by
  intro evs
  induction evs with
  | nil =>
    intro s s' h
    simp only [ErrTree.run, ErrTree.Res.ok.injEq] at h
    subst h
    refine ⟨id, id, id, id, id, ?_, ?_, ?_⟩
    · rintro ⟨e, he, _⟩; cases he
    · rintro ⟨e, he, _⟩; cases he
    · intro _ e he; cases he
  | cons e r ih =>
    intro s s' h
    simp only [ErrTree.run] at h
    cases hs : ErrTree.step s e with
    | crash c => rw [hs] at h; cases h
    | ok s1 =>
      rw [hs] at h
      obtain ⟨p1, p2, p3, p4, p5, _, p7, p8, _, p10⟩ := step_ok_props s s1 e hs
      obtain ⟨q1, q2, q3, q4, q5, q6, q7, q8⟩ := ih s1 s' h
      refine ⟨q1 ∘ p1, q2 ∘ p2, q3 ∘ p3, q4 ∘ p4, q5 ∘ p5, ?_, ?_, ?_⟩
      · rintro ⟨x, hx, hx'⟩
        rcases List.mem_cons.1 hx with rfl | hx
        · exact q2 (p7 hx')
        · exact q6 ⟨x, hx, hx'⟩
      · rintro ⟨x, hx, hx'⟩
        rcases List.mem_cons.1 hx with rfl | hx
        · exact q3 (p8 hx')
        · exact q7 ⟨x, hx, hx'⟩
      · intro hn x hx
        rcases List.mem_cons.1 hx with rfl | hx
        · cases hb : isGsError x with
          | false => rfl
          | true =>
            have h1 : s1.curGs = none := by
              cases hc : s1.curGs with
              | none => rfl
              | some p => exact absurd hn (q2 (by rw [hc]; simp))
            have h0 : s.curGs ≠ none := p10 hb
            exact absurd h1 (p2 h0)
        · exact q8 hn x hx

theorem run_good (evs : List Event) (s s' : ErrTree.State) (hg : Good s) (h : ErrTree.run s evs = .ok s') : Good s' := by
  obtain ⟨p1, _, _, p4, p5, _⟩ := run_ok_props evs s s' h
  exact ⟨p1 hg.1, p4 hg.2.1, p5 hg.2.2⟩

/-- a failing run fails at one event, in a `Good` state reached by the events before it -/
theorem run_crash_good : ∀ (evs : List Event) (s : ErrTree.State) (c : ErrTree.Site), Good s →
    ErrTree.run s evs = .crash c →
    ∃ pre e post s', evs = pre ++ e :: post ∧ ErrTree.run s pre = .ok s' ∧ Good s' ∧ Reach s' e c := by
  intro evs
  induction evs with
  | nil => intro s c _ h; cases h
  | cons e r ih =>
    intro s c hg h
    simp only [ErrTree.run] at h
    cases hs : ErrTree.step s e with
    | crash c' =>
      rw [hs] at h
      injection h with h
      subst h
      exact ⟨[], e, r, s, rfl, rfl, hg, step_crash_good s e _ hg hs⟩
    | ok s1 =>
      rw [hs] at h
      obtain ⟨pre, x, post, s', h1, h2, h3, h4⟩ := ih s1 c (step_good s s1 e hg hs) h
      refine ⟨e :: pre, x, post, s', by rw [h1]; rfl, ?_, h3, h4⟩
      simp only [ErrTree.run, hs, h2]

end Pyx12Verif.Doc
