/-
C06 re-validation: AK402 is not an echo obligation.

`kAK4.own 1 e` (Proofs/C06RevalAdm2.lean, `ownAK402`) makes an AK402 that is empty or one to four ASCII digits the writer's
own slot: it is admissible by the DECIDABLE per-map check `ackDefsOk` (the 997 map's AK402 takes every string of 1..4 digits
and may be left out), so `EchoFits` asks nothing about it.  Here: the repaired writer (`ele_ref_num` copied only when it is
a digit string — `Ack.ak402_written`) never produces anything else as long as the reference numbers held by the error tree
have at most four characters (`RefNumsFit`; they are the `data_ele` attributes of the source map's element and composite
nodes, handed to `err_handler.add_ele`).
-/
import Pyx12Verif.Proofs.C06RevalAdm4
import Pyx12Verif.Proofs.AckRefNum

namespace Pyx12Verif.C06R
open Pyx12Verif Pyx12Verif.Ack Pyx12Verif.C06 Pyx12Verif.C05

/-- `ele_ref_num` of one element node has at most four characters (X12 data element numbers have one to four digits; the
    ids of composites — `C022`, `C040` — have four characters as well) -/
def RefShort (e : ErrTree.Ele) : Prop := ∀ r, e.refNum = some r → r.length ≤ 4

/-- AK402 of an AK4 line as the reader sees it: empty, or the digit string `ele_ref_num` -/
theorem ak402_read (el : ErrTree.Ele) (x : PSeg) (hx : x ∈ eleLines997 el) (hnb : NonBare x) (c : List Str)
    (hc : (toSeg x).elems[1]? = some c) :
    c = [[]] ∨ ∃ r, el.refNum = some r ∧ c = [r] ∧ r ≠ [] ∧ ∀ ch ∈ r, isDig ch = true := by
  have hid : x.id ≠ isaId := by rw [eleBase997_id el x hx]; decide
  obtain ⟨c0, hc0, he⟩ := toSeg_get x hid hnb 1 c hc
  rw [ak402_written el x hx] at hc0
  simp only [Option.some.injEq] at hc0
  subst hc0
  rcases refSlot_digits el with h | ⟨r, h1, h2, h3, h4⟩
  · left
    rw [he, h, SegText.normComp_single]
  · right
    refine ⟨r, h1, by rw [he, h2, SegText.normComp_single], h3, fun ch hch => isDig_of_digitC ch (h4 ch hch)⟩

/-- **AK402 is the writer's own slot** (`KindSpec.own`) when the reference number has at most four characters: `EchoFits`
    carries no obligation for it — whatever the kind of node (simple element, composite) the error was reported on -/
theorem ak402_own (el : ErrTree.Ele) (x : PSeg) (hx : x ∈ eleLines997 el) (hnb : NonBare x) (hfit : RefShort el)
    (c : List Str) (hc : (toSeg x).elems[1]? = some c) : kAK4.own 1 c = true := by
  rcases ak402_read el x hx hnb c hc with rfl | ⟨r, hr, rfl, _, hd⟩
  · decide
  · have hl := hfit r hr
    simp only [kAK4, ownAK402, beq_self_eq_true, Bool.true_and, Bool.or_eq_true, Bool.and_eq_true, List.all_eq_true,
      decide_eq_true_eq]
    right; right
    exact ⟨hd, hl⟩

/-- every reference number of an element node under a set of the error tree has at most four characters -/
def RefNumsFit (s : ErrTree.State) : Prop :=
  ∀ g ∈ allGs s.tree, ∀ st ∈ g.children, ∀ sg ∈ st.children, ∀ e ∈ sg.elements, RefShort e

/-- where an AK4 line of a complete 997 comes from -/
theorem ak4_source (s : ErrTree.State) (p : Params) (hC : Complete s) (isa gs : PSeg) (rest : List PSeg)
    (hout : (ack997 fixed s p).out = isa :: gs :: rest) (x : PSeg) (hx : x ∈ rest) (hid : x.id = sAK4) :
    ∃ g ∈ allGs s.tree, ∃ st ∈ g.children, ∃ sg ∈ st.children, ∃ e ∈ sg.elements, x ∈ eleLines997 e := by
  have hcr := ack_complete s p hC
  obtain ⟨a, g, isa', gs', _, _, _, _, hoks, _, _⟩ := ack997_ok fixed s p hcr
  obtain ⟨_, _, isa2, gs2, _, _, _, _, hshape, _⟩ := ack997_written s p hC
  rw [hout] at hshape
  simp only [List.cons.injEq] at hshape
  obtain ⟨_, _, rfl⟩ := hshape
  simp only [List.mem_append, List.mem_cons, List.not_mem_nil, or_false] at hx
  rcases hx with hx | rfl | rfl
  · obtain ⟨g', hg', k, _, hxb⟩ := blocks_mem 0 _ x hx
    simp only [block997, List.mem_append, List.mem_cons, List.not_mem_nil, or_false] at hxb
    rcases hxb with ((rfl | rfl) | hxl) | rfl | rfl
    · rw [stSeg997_id] at hid; exact absurd hid (by decide)
    · rw [show (ak1Seg997 g').id = sAK1 from mkSeg_starJoin_id _ _ _ (by decide)] at hid; exact absurd hid (by decide)
    · obtain ⟨e, hall⟩ := stsLines_segs (stLines997 fixed) g'.children (hoks g' hg')
      unfold gsLines at hxl
      rw [e] at hxl
      obtain ⟨o, ho, hxo⟩ := List.mem_flatten.1 hxl
      obtain ⟨st, hst, rfl⟩ := List.mem_map.1 ho
      obtain ⟨i, c, codes, _, _, _, es⟩ := stLines997_ok fixed st (hall st hst)
      rw [es] at hxo
      simp only [List.mem_cons, List.mem_append, List.not_mem_nil, or_false] at hxo
      rcases hxo with rfl | hxo | rfl
      · rw [ak2Seg997_id] at hid; exact absurd hid (by decide)
      · obtain ⟨sg, hsg, h | ⟨el, hel, h⟩⟩ := segsLines_mem _ _ _ x hxo
        · rw [segBase997_id sg x h] at hid; exact absurd hid (by decide)
        · exact ⟨g', hg', st, hst, sg, hsg, el, hel, h⟩
      · rw [ak5Seg997_id] at hid; exact absurd hid (by decide)
    · rw [ak9Seg997_id] at hid; exact absurd hid (by decide)
    · rw [seSeg997_id] at hid; exact absurd hid (by decide)
  · rw [geSeg997_id] at hid; exact absurd hid (by decide)
  · rw [ieaSeg997_id] at hid; exact absurd hid (by decide)

/-- **in a complete 997 no AK402 falls under `EchoFits`** when the tree's reference numbers have at most four characters:
    each one is empty or a string of one to four ASCII digits, i.e. `kAK4.own 1` holds of it -/
theorem ack997_ak402_own (s : ErrTree.State) (p : Params) (hC : Complete s) (hclean : EchoSafe s p) (hfit : RefNumsFit s)
    (isa gs : PSeg) (rest : List PSeg) (hout : (ack997 fixed s p).out = isa :: gs :: rest) :
    ∀ x ∈ rest, x.id = sAK4 → ∀ c, (toSeg x).elems[1]? = some c → (kindOf x.id).own 1 c = true := by
  intro x hx hid c hc
  obtain ⟨g, hg, st, hst, sg, hsg, e, he, hxe⟩ := ak4_source s p hC isa gs rest hout x hx hid
  have hnb : NonBare x := (hclean x (by rw [hout]; simp [hx])).2
  rw [hid, kindOf_AK4]
  exact ak402_own e x hxe hnb (hfit g hg st hst sg hsg e he) c hc

end Pyx12Verif.C06R
