/-
The order in which `err_iter` can ever reach tree positions, and the invariant of the cursor that makes every
`__next__` a strict step forward in that order - whatever the tree looks like and however it grows between calls.

A *position* is a node address with a flag: `false` = standing on the node before its subtree (reached by
`get_first_child` / `get_next_sibling`), `true` = back on the node after its subtree (reached by `get_parent`).
`plt` is the depth-first order on positions: `(a,false) < every position below a < (a,true) < (next sibling,false)`.
-/
import Pyx12Verif.Model.ErrIter

namespace Pyx12Verif.ErrIter
open Pyx12Verif.ErrTree

def Addr.path : Addr → List Nat
  | .root => []
  | .isa i => [i]
  | .gs i g => [i, g]
  | .st i g s => [i, g, s]
  | .seg i g s k => [i, g, s, k]

theorem Addr.path_inj (a b : Addr) (h : a.path = b.path) : a = b := by
  cases a <;> cases b <;> simp [Addr.path] at h <;> grind

/-- depth-first order on (path, after-the-subtree flag) -/
def plt : List Nat → Bool → List Nat → Bool → Prop
  | [], ua, [], ub => ua = false ∧ ub = true
  | [], ua, _ :: _, _ => ua = false
  | _ :: _, _, [], ub => ub = true
  | x :: xs, ua, y :: ys, ub => x < y ∨ (x = y ∧ plt xs ua ys ub)

instance plt_dec : ∀ (a : List Nat) (ua : Bool) (b : List Nat) (ub : Bool), Decidable (plt a ua b ub)
  | [], ua, [], ub => by unfold plt; exact inferInstance
  | [], ua, _ :: _, _ => by unfold plt; exact inferInstance
  | _ :: _, _, [], ub => by unfold plt; exact inferInstance
  | x :: xs, ua, y :: ys, ub => by
    unfold plt
    have := plt_dec xs ua ys ub
    exact inferInstance

theorem plt_irrefl (a : List Nat) (u : Bool) : ¬ plt a u a u := by
  induction a with
  | nil => simp [plt]
  | cons x xs ih => simp [plt, ih]

theorem plt_trans (a : List Nat) (ua : Bool) (b : List Nat) (ub : Bool) (c : List Nat) (uc : Bool)
    (h1 : plt a ua b ub) (h2 : plt b ub c uc) : plt a ua c uc := by
  induction a generalizing b c with
  | nil =>
    cases b with
    | nil => cases c <;> simp_all [plt]
    | cons y ys => cases c <;> simp_all [plt]
  | cons x xs ih =>
    cases b with
    | nil => cases c <;> simp_all [plt]
    | cons y ys =>
      cases c with
      | nil => simp_all [plt]
      | cons z zs =>
        simp only [plt] at h1 h2 ⊢
        rcases h1 with h1 | ⟨h1, h1'⟩
        · rcases h2 with h2 | ⟨h2, _⟩
          · left; omega
          · left; omega
        · rcases h2 with h2 | ⟨h2, h2'⟩
          · left; omega
          · right; exact ⟨by omega, ih ys zs h1' h2'⟩

/-- a position of the traversal -/
structure Pos where
  addr : Addr
  up : Bool
deriving DecidableEq, Repr

def Pos.lt (p q : Pos) : Prop := plt p.addr.path p.up q.addr.path q.up
def Pos.le (p q : Pos) : Prop := p = q ∨ p.lt q

instance (p q : Pos) : Decidable (p.lt q) := by unfold Pos.lt; exact inferInstance

theorem Pos.lt_irrefl (p : Pos) : ¬ p.lt p := plt_irrefl _ _
theorem Pos.lt_trans {p q r : Pos} (h1 : p.lt q) (h2 : q.lt r) : p.lt r := plt_trans _ _ _ _ _ _ h1 h2
theorem Pos.lt_of_le_of_lt {p q r : Pos} (h1 : p.le q) (h2 : q.lt r) : p.lt r := by
  rcases h1 with h1 | h1
  · subst h1; exact h2
  · exact Pos.lt_trans h1 h2
theorem Pos.lt_of_lt_of_le {p q r : Pos} (h1 : p.lt q) (h2 : q.le r) : p.lt r := by
  rcases h2 with h2 | h2
  · subst h2; exact h1
  · exact Pos.lt_trans h1 h2
theorem Pos.le_trans {p q r : Pos} (h1 : p.le q) (h2 : q.le r) : p.le r := by
  rcases h1 with h1 | h1
  · subst h1; exact h2
  · exact Or.inr (Pos.lt_of_lt_of_le h1 h2)
theorem Pos.le_refl (p : Pos) : p.le p := Or.inl rfl
theorem Pos.ne_of_lt {p q : Pos} (h : p.lt q) : p ≠ q := by
  intro e; subst e; exact Pos.lt_irrefl _ h

def Visit.pos (v : Visit) : Pos := { addr := v.addr, up := v.up }

theorem Visit.pos_inj (v w : Visit) (h : v.pos = w.pos) : v = w := by
  cases v; cases w; simp [Visit.pos] at h; simp [h]

/-- the cursor stands after the subtree of its node exactly when the node is on the visit stack -/
def Cursor.pos (c : Cursor) : Pos := { addr := c.cur, up := decide (c.cur ∈ c.stack) }

/-- proper ancestors -/
def ancestors : Addr → List Addr
  | .root => []
  | .isa _ => [.root]
  | .gs i _ => [.isa i, .root]
  | .st i g _ => [.gs i g, .isa i, .root]
  | .seg i g s _ => [.st i g s, .gs i g, .isa i, .root]

/-- invariant of `err_iter`:
    the visit stack is strictly ordered (most recent entry = furthest position on top),
    nothing on it lies ahead of the cursor, and every proper ancestor of the current node is on it -/
structure Inv (c : Cursor) : Prop where
  sorted : c.stack.Pairwise (fun x y => Pos.lt ⟨y, false⟩ ⟨x, false⟩)
  behind : ∀ x ∈ c.stack, Pos.le ⟨x, false⟩ c.pos
  anc : ∀ p ∈ ancestors c.cur, p ∈ c.stack

theorem Inv.init : Inv Cursor.init := by
  refine ⟨?_, ?_, ?_⟩ <;> simp [Cursor.init, ancestors]

/-! ### the three moves, as facts about positions -/

theorem lt_firstChild (t : Tree) (a n : Addr) (u : Bool) (h : firstChild t a = some n) : Pos.lt ⟨a, false⟩ ⟨n, u⟩ := by
  cases a <;> simp only [firstChild] at h <;> (try split at h) <;> simp at h <;> subst h <;>
    simp [Pos.lt, plt, Addr.path]

theorem lt_nextSibling (t : Tree) (a n : Addr) (u u' : Bool) (h : nextSibling t a = some n) :
    Pos.lt ⟨a, u⟩ ⟨n, u'⟩ := by
  cases a <;> simp only [nextSibling] at h <;> (try split at h) <;> simp at h <;> subst h <;>
    simp [Pos.lt, plt, Addr.path]

theorem lt_parent (a p : Addr) (u : Bool) (h : parent a = some p) : Pos.lt ⟨a, u⟩ ⟨p, true⟩ := by
  cases a <;> simp [parent] at h <;> subst h <;> simp [Pos.lt, plt, Addr.path]

theorem lt_false_true (a : Addr) : Pos.lt ⟨a, false⟩ ⟨a, true⟩ := by
  cases a <;> simp [Pos.lt, plt, Addr.path]

theorem firstChild_anc (t : Tree) (a n : Addr) (h : firstChild t a = some n) : ancestors n = a :: ancestors a := by
  cases a <;> simp only [firstChild] at h <;> (try split at h) <;> simp at h <;> subst h <;> simp [ancestors]

theorem nextSibling_anc (t : Tree) (a n : Addr) (h : nextSibling t a = some n) : ancestors n = ancestors a := by
  cases a <;> simp only [nextSibling] at h <;> (try split at h) <;> simp at h <;> subst h <;> simp [ancestors]

theorem parent_anc (a p : Addr) (h : parent a = some p) : ancestors a = p :: ancestors p := by
  cases a <;> simp [parent] at h <;> subst h <;> simp [ancestors]

/-- a proper ancestor lies strictly before the node -/
theorem anc_lt (a p : Addr) (u : Bool) (h : p ∈ ancestors a) : Pos.lt ⟨p, false⟩ ⟨a, u⟩ := by
  cases a <;> cases p <;> simp [ancestors] at h <;> simp [Pos.lt, plt, Addr.path, h]

theorem anc_trans (a p q : Addr) (h1 : p ∈ ancestors a) (h2 : q ∈ ancestors p) : q ∈ ancestors a := by
  cases a <;> cases p <;> cases q <;> simp [ancestors] at h1 h2 ⊢ <;> grind

/-! ### one `__next__` keeps the invariant and moves strictly forward -/

theorem cur_pos_le (c : Cursor) : Pos.le ⟨c.cur, false⟩ c.pos := by
  unfold Cursor.pos
  by_cases h : c.cur ∈ c.stack
  · simp only [h, decide_true]; exact Or.inr (lt_false_true _)
  · simp only [h, decide_false]; exact Or.inl rfl

/-- popping the top entry when the current node is on the stack never removes a proper ancestor -/
theorem anc_mem_popIfIn (c : Cursor) (hi : Inv c) (p : Addr) (hp : p ∈ ancestors c.cur) : p ∈ popIfIn c := by
  unfold popIfIn
  split
  · rename_i hin
    have hps := hi.anc p hp
    cases hs : c.stack with
    | nil => simp [hs] at hin
    | cons top rest =>
      simp only [List.tail_cons]
      rw [hs] at hps hin
      have hsorted := hi.sorted
      rw [hs, List.pairwise_cons] at hsorted
      rcases List.mem_cons.mp hps with e | e
      · -- p is the top: then cur (which is on the stack) is ≤ top = p < cur
        exfalso
        subst e
        have hlt : Pos.lt ⟨p, false⟩ ⟨c.cur, false⟩ := anc_lt _ _ _ hp
        rcases List.mem_cons.mp hin with e2 | e2
        · rw [e2] at hlt; exact Pos.lt_irrefl _ hlt
        · exact Pos.lt_irrefl _ (Pos.lt_trans hlt (hsorted.1 _ e2))
      · exact e
  · exact hi.anc p hp

theorem popIfIn_sub (c : Cursor) (x : Addr) (h : x ∈ popIfIn c) : x ∈ c.stack := by
  unfold popIfIn at h
  split at h
  · exact List.mem_of_mem_tail h
  · exact h

theorem popIfIn_sorted (c : Cursor) (hi : Inv c) :
    (popIfIn c).Pairwise (fun x y => Pos.lt ⟨y, false⟩ ⟨x, false⟩) := by
  unfold popIfIn
  split
  · cases hs : c.stack with
    | nil => simp
    | cons top rest =>
      have := hi.sorted
      rw [hs, List.pairwise_cons] at this
      simpa using this.2
  · exact hi.sorted

/-- the result of the `get_parent()` branch (shared by the move and by the ROOT exit) -/
theorem ascend_inv (c : Cursor) (hi : Inv c) (p : Addr) (hp : parent c.cur = some p) :
    Inv { cur := p, stack := popIfIn c } ∧ (Cursor.pos { cur := p, stack := popIfIn c }) = ⟨p, true⟩ ∧
      Pos.lt c.pos ⟨p, true⟩ := by
  have hanc := parent_anc _ _ hp
  have hpin : p ∈ popIfIn c := anc_mem_popIfIn c hi p (by rw [hanc]; simp)
  have hpos : (Cursor.pos { cur := p, stack := popIfIn c }) = ⟨p, true⟩ := by simp [Cursor.pos, hpin]
  have hlt : Pos.lt c.pos ⟨p, true⟩ := lt_parent _ _ _ hp
  refine ⟨⟨popIfIn_sorted c hi, ?_, ?_⟩, hpos, hlt⟩
  · intro x hx
    rw [hpos]
    exact Or.inr (Pos.lt_of_le_of_lt (hi.behind x (popIfIn_sub c x hx)) hlt)
  · intro q hq
    exact anc_mem_popIfIn c hi q (by rw [hanc]; simp [hq])

theorem step_moved_inv (t : Tree) (c c' : Cursor) (u : Bool) (hi : Inv c) (h : step t c = .moved c' u) :
    Inv c' ∧ c'.pos = ⟨c'.cur, u⟩ ∧ Pos.lt c.pos c'.pos := by
  unfold step at h
  split at h
  · -- get_first_child
    rename_i n hd
    simp only [Step.moved.injEq] at h
    obtain ⟨hc, hu⟩ := h
    subst hc; subst hu
    unfold descendTarget at hd
    split at hd
    · simp at hd
    · rename_i hnin
      have hcpos : c.pos = ⟨c.cur, false⟩ := by simp [Cursor.pos, hnin]
      have hbelow : ∀ x ∈ c.stack, Pos.lt ⟨x, false⟩ ⟨c.cur, false⟩ := by
        intro x hx
        have := hi.behind x hx
        rw [hcpos] at this
        rcases this with e | e
        · simp only [Pos.mk.injEq, and_true] at e; subst e; exact absurd hx hnin
        · exact e
      have hnlt : ∀ u', Pos.lt ⟨c.cur, false⟩ ⟨n, u'⟩ := fun u' => lt_firstChild t _ _ u' hd
      have hnnin : n ∉ c.cur :: c.stack := by
        intro hm
        rcases List.mem_cons.mp hm with e | e
        · have := hnlt false; rw [e] at this; exact Pos.lt_irrefl _ this
        · exact Pos.lt_irrefl _ (Pos.lt_trans (hbelow n e) (hnlt false))
      have hpos : (Cursor.pos { cur := n, stack := c.cur :: c.stack }) = ⟨n, false⟩ := by
        simp only [Cursor.pos, hnnin, decide_false]
      refine ⟨⟨?_, ?_, ?_⟩, hpos, ?_⟩
      · exact List.pairwise_cons.mpr ⟨hbelow, hi.sorted⟩
      · intro x hx
        rw [hpos]
        rcases List.mem_cons.mp hx with e | e
        · subst e; exact Or.inr (hnlt false)
        · exact Or.inr (Pos.lt_trans (hbelow x e) (hnlt false))
      · intro p hp
        rw [firstChild_anc t _ _ hd] at hp
        rcases List.mem_cons.mp hp with e | e
        · subst e; simp
        · exact List.mem_cons_of_mem _ (hi.anc p e)
      · rw [hpos, hcpos]; exact hnlt false
  · split at h
    · -- get_next_sibling
      rename_i n hs
      simp only [Step.moved.injEq] at h
      obtain ⟨hc, hu⟩ := h
      subst hc; subst hu
      have hlt : ∀ u', Pos.lt c.pos ⟨n, u'⟩ := fun u' => lt_nextSibling t _ _ _ u' hs
      have hnnin : n ∉ c.stack := by
        intro hm
        exact Pos.lt_irrefl _ (Pos.lt_of_le_of_lt (hi.behind n hm) (hlt false))
      have hpos : (Cursor.pos { cur := n, stack := c.stack }) = ⟨n, false⟩ := by
        simp only [Cursor.pos, hnnin, decide_false]
      refine ⟨⟨hi.sorted, ?_, ?_⟩, hpos, ?_⟩
      · intro x hx
        rw [hpos]
        exact Or.inr (Pos.lt_of_le_of_lt (hi.behind x hx) (hlt false))
      · intro p hp
        rw [nextSibling_anc t _ _ hs] at hp
        exact hi.anc p hp
      · rw [hpos]; exact hlt false
    · -- get_parent
      unfold ascend at h
      split at h
      · simp at h
      · split at h
        · simp at h
        · rename_i p hp
          split at h
          · simp at h
          · split at h
            · simp at h
            · simp only [Step.moved.injEq] at h
              obtain ⟨hc, hu⟩ := h
              subst hc; subst hu
              obtain ⟨h1, h2, h3⟩ := ascend_inv c hi p hp
              exact ⟨h1, h2, by rw [h2]; exact h3⟩

theorem step_oob_inv (t : Tree) (c c' : Cursor) (hi : Inv c) (h : step t c = .oob c') :
    Inv c' ∧ Pos.le c.pos c'.pos := by
  unfold step at h
  split at h
  · simp at h
  · split at h
    · simp at h
    · unfold ascend at h
      split at h
      · simp only [Step.oob.injEq] at h; subst h; exact ⟨hi, Pos.le_refl _⟩
      · split at h
        · simp only [Step.oob.injEq] at h; subst h; exact ⟨hi, Pos.le_refl _⟩
        · rename_i p hp
          split at h
          · simp only [Step.oob.injEq] at h; subst h; exact ⟨hi, Pos.le_refl _⟩
          · split at h
            · simp only [Step.oob.injEq] at h; subst h
              obtain ⟨h1, h2, h3⟩ := ascend_inv c hi p hp
              exact ⟨h1, by rw [h2]; exact Or.inr h3⟩
            · simp at h

/-! ### one drain, and a whole run -/

/-- what one drain does to the cursor: the positions handed over are strictly increasing, all lie strictly after the
    old cursor position and not after the new one -/
structure DrainOK (c : Cursor) (vs : List Visit) (c' : Cursor) : Prop where
  inv : Inv c'
  incr : (vs.map Visit.pos).Pairwise Pos.lt
  after : ∀ v ∈ vs, Pos.lt c.pos v.pos
  upto : ∀ v ∈ vs, Pos.le v.pos c'.pos
  mono : Pos.le c.pos c'.pos

theorem drainF_ok (t : Tree) (f : Nat) (c : Cursor) (hi : Inv c) :
    DrainOK c (drainF t f c).1 (drainF t f c).2 := by
  induction f generalizing c with
  | zero => exact ⟨hi, by simp [drainF], by simp [drainF], by simp [drainF], Pos.le_refl _⟩
  | succ f ih =>
    unfold drainF
    split
    · rename_i c' u hs
      obtain ⟨hi', hpos, hlt⟩ := step_moved_inv t c c' u hi hs
      have r := ih c' hi'
      have hv : (Visit.pos { addr := c'.cur, up := u }) = c'.pos := by rw [hpos]; rfl
      refine ⟨r.inv, ?_, ?_, ?_, ?_⟩
      · simp only [consV, List.map_cons, List.pairwise_cons]
        refine ⟨?_, r.incr⟩
        intro p hp
        obtain ⟨v, hv1, hv2⟩ := List.mem_map.mp hp
        rw [hv, ← hv2]; exact r.after v hv1
      · intro v hv'
        simp only [consV, List.mem_cons] at hv'
        rcases hv' with e | e
        · rw [e, hv]; exact hlt
        · exact Pos.lt_trans hlt (r.after v e)
      · intro v hv'
        simp only [consV, List.mem_cons] at hv'
        rcases hv' with e | e
        · rw [e, hv]; exact r.mono
        · exact r.upto v e
      · exact Or.inr (Pos.lt_of_lt_of_le hlt r.mono)
    · rename_i c' hs
      obtain ⟨hi', hle⟩ := step_oob_inv t c c' hi hs
      exact ⟨hi', by simp, by simp, by simp, hle⟩

theorem drainV_ok (t : Tree) (c : Cursor) (hi : Inv c) : DrainOK c (drainV t c).1 (drainV t c).2 :=
  drainF_ok t _ c hi

/-- all hand-overs of a run, in order -/
def allVisits (fs : List Frame) : List Visit := fs.flatMap (·.visits)

theorem runH_visits_sorted (h : List Item) (rs : RState) (hi : Inv rs.cur) :
    ((allVisits (runH rs h)).map Visit.pos).Pairwise Pos.lt ∧
      ∀ v ∈ allVisits (runH rs h), Pos.lt rs.cur.pos v.pos := by
  induction h generalizing rs with
  | nil => simp [runH, allVisits]
  | cons it r ih =>
    cases it with
    | ev e =>
      simp only [runH]
      split
      · rename_i s1 _
        exact ih { st := s1, cur := rs.cur } hi
      · simp [allVisits]
    | seg sid =>
      simp only [runH]
      have d := drainV_ok rs.st.tree rs.cur hi
      have r := ih { st := rs.st, cur := (drainV rs.st.tree rs.cur).2 } d.inv
      simp only [allVisits, List.flatMap_cons, List.map_append, List.mem_append] at r ⊢
      refine ⟨List.pairwise_append.mpr ⟨d.incr, r.1, ?_⟩, ?_⟩
      · intro p hp q hq
        obtain ⟨v, hv1, hv2⟩ := List.mem_map.mp hp
        obtain ⟨w, hw1, hw2⟩ := List.mem_map.mp hq
        rw [← hv2, ← hw2]
        exact Pos.lt_of_le_of_lt (d.upto v hv1) (r.2 w hw1)
      · intro v hv
        rcases hv with hv | hv
        · exact d.after v hv
        · exact Pos.lt_of_le_of_lt d.mono (r.2 v hv)

end Pyx12Verif.ErrIter
