/- every flattening of a structured document is accepted by the nesting recogniser `properlyNested` -/
import Pyx12Verif.Spec.Envelope

namespace Pyx12Verif.Envelope

def walk : Level → List SegView → Option Level
  | l, [] => some l
  | l, v :: r =>
    match nestStep l v with
    | none => none
    | some l' => walk l' r

theorem walk_append {a b : List SegView} : ∀ {l l1 l2 : Level}, walk l a = some l1 → walk l1 b = some l2 →
    walk l (a ++ b) = some l2 := by
  induction a with
  | nil => intro l l1 l2 h1 h2; simp [walk] at h1; subst h1; simpa using h2
  | cons v r ih =>
    intro l l1 l2 h1 h2
    simp only [walk, List.cons_append] at h1 ⊢
    cases hn : nestStep l v with
    | none => simp [hn] at h1
    | some l' => simp only [hn] at h1 ⊢; exact ih h1 h2

theorem nested_of_walk {a : List SegView} : ∀ {l l1 : Level}, walk l a = some l1 → nestedFrom l a = true := by
  induction a with
  | nil => intro _ _ _; rfl
  | cons v r ih =>
    intro l l1 h
    simp only [walk, nestedFrom] at h ⊢
    cases hn : nestStep l v with
    | none => simp [hn] at h
    | some l' => simp only [hn] at h ⊢; exact ih h

theorem walk_body (body : List SegView) (h : BodyOk body) : walk .inSt body = some .inSt := by
  induction body with
  | nil => rfl
  | cons v r ih =>
    have hv : isEnvId v.id = false := h v (by simp)
    have hse : v.id ≠ idSE := by
      intro e; rw [e] at hv; revert hv; decide
    simp only [walk, nestStep, hse, hv, if_false]
    exact ih (fun w hw => h w (by simp [hw]))

theorem walk_openSet (c : Option Str) (body : List SegView) (h : BodyOk body) :
    walk .inGs (mkST c :: body) = some .inSt := by
  simp only [walk, nestStep, mkST, if_true]
  exact walk_body body h

theorem walk_set (t : TSet) (h : BodyOk t.body) : walk .inGs (flattenSet t) = some .inGs := by
  have h1 := walk_openSet t.stCtl t.body h
  have h2 : walk .inSt [mkSE t.seCnt t.seCtl] = some .inGs := by simp [walk, nestStep, mkSE]
  have := walk_append h1 h2
  simpa [flattenSet] using this

theorem walk_sets (ts : List TSet) (h : ∀ t ∈ ts, BodyOk t.body) : walk .inGs (flattenSets ts) = some .inGs := by
  induction ts with
  | nil => rfl
  | cons t r ih =>
    simp only [flattenSets]
    exact walk_append (walk_set t (h t (by simp))) (ih (fun u hu => h u (by simp [hu])))

theorem walk_openGroup (c : Option Str) (ts : List TSet) (h : ∀ t ∈ ts, BodyOk t.body) :
    walk .inIsa (mkGS c :: flattenSets ts) = some .inGs := by
  simp only [walk, nestStep, mkGS, if_true]
  exact walk_sets ts h

theorem walk_group (g : Group) (h : ∀ t ∈ g.sets, BodyOk t.body) : walk .inIsa (flattenGroup g) = some .inIsa := by
  have h1 := walk_openGroup g.gsCtl g.sets h
  have h2 : walk .inGs [mkGE g.geCnt g.geCtl] = some .inIsa := by
    simp [walk, nestStep, mkGE, show idGE ≠ idST by decide]
  have := walk_append h1 h2
  simpa [flattenGroup] using this

theorem walk_groups (gs : List Group) (h : ∀ g ∈ gs, ∀ t ∈ g.sets, BodyOk t.body) :
    walk .inIsa (flattenGroups gs) = some .inIsa := by
  induction gs with
  | nil => rfl
  | cons g r ih =>
    simp only [flattenGroups]
    exact walk_append (walk_group g (h g (by simp))) (ih (fun u hu => h u (by simp [hu])))

theorem walk_openInterchange (c : Option Str) (gs : List Group) (h : ∀ g ∈ gs, ∀ t ∈ g.sets, BodyOk t.body) :
    walk .top (mkISA c :: flattenGroups gs) = some .inIsa := by
  simp only [walk, nestStep, mkISA, if_true]
  exact walk_groups gs h

theorem walk_interchange (i : Interchange) (h : ∀ g ∈ i.groups, ∀ t ∈ g.sets, BodyOk t.body) :
    walk .top (flattenInterchange i) = some .top := by
  have h1 := walk_openInterchange i.isaCtl i.groups h
  have h2 : walk .inIsa [mkIEA i.ieaCnt i.ieaCtl] = some .top := by
    simp [walk, nestStep, mkIEA, show idIEA ≠ idGS by decide]
  have := walk_append h1 h2
  simpa [flattenInterchange] using this

theorem walk_file (d : List Interchange) (h : ∀ i ∈ d, ∀ g ∈ i.groups, ∀ t ∈ g.sets, BodyOk t.body) :
    walk .top (flatten d) = some .top := by
  induction d with
  | nil => rfl
  | cons i r ih =>
    simp only [flatten]
    exact walk_append (walk_interchange i (h i (by simp))) (ih (fun u hu => h u (by simp [hu])))

theorem walk_tail (chk : Bool) (o : Option OpenInterchange)
    (hd : match o with
          | none => True
          | some o => GroupsDom chk o.groups ∧ OpenGroupDom chk o.last) :
    ∃ l, walk .top (flattenTail o) = some l := by
  cases o with
  | none => exact ⟨.top, rfl⟩
  | some oi =>
    obtain ⟨hd1, hd2⟩ := hd
    have h1 := walk_openInterchange oi.isaCtl oi.groups (fun g hg t ht => (hd1 g hg t ht).1)
    cases hlast : oi.last with
    | none => exact ⟨.inIsa, by simpa [flattenTail, hlast, flattenOpenGroup] using h1⟩
    | some og =>
      rw [hlast] at hd2
      obtain ⟨hd3, hd4⟩ := hd2
      have h2 := walk_openGroup og.gsCtl og.sets (fun t ht => (hd3 t ht).1)
      cases hlast2 : og.last with
      | none =>
        exact ⟨.inGs, by simpa [flattenTail, hlast, flattenOpenGroup, hlast2, flattenOpenSet] using walk_append h1 h2⟩
      | some os =>
        rw [hlast2] at hd4
        have h3 := walk_openSet os.stCtl os.body hd4.1
        have := walk_append h1 (walk_append h2 h3)
        exact ⟨.inSt, by simpa [flattenTail, hlast, flattenOpenGroup, hlast2, flattenOpenSet] using this⟩

theorem flattenDoc_nested (chk : Bool) (d : Doc) (hd : DocDomain chk d) : properlyNested (flattenDoc d) = true := by
  obtain ⟨h1, h2⟩ := hd
  have w1 := walk_file d.complete (fun i hi g hg t ht => (h1 i hi g hg t ht).1)
  obtain ⟨l, w2⟩ := walk_tail chk d.tail h2
  exact nested_of_walk (walk_append w1 w2)

end Pyx12Verif.Envelope
