/- driver ops for the validation model:  V <value> <type> <extended 0/1> <5010 0/1>  |  CC <value> -/
import Pyx12Verif.Model.Proto
import Pyx12Verif.Model.Validation

namespace Pyx12Verif.Drv.C13
open Pyx12Verif Proto Validation

def handle : List (List Char) → Option String
  | [['V'], v, ty, e, x] => some (boolStr (isValidDataType v ty (e == ['1']) (x == ['1'])))
  | [['C', 'C'], v] => some (boolStr (hasControl v))
  | _ => none

end Pyx12Verif.Drv.C13
