/- driver ops for the syntax-note model (tag prefix `SYN.`):
   SYN.V <code char> <positions "3,4"> <segment "0110": one char per element, 1 = non-empty>  → valid | violated | crash
   SYN.R <notes "P:3,4;E:8,9"> <segment>                                                     → crash | "2@3;10@8" (errors in order)
   SYN.P <note text>                                                                         → ok:P:3,4 | dropped | outside | crash
   SYN.W <note text> <child count>                                                           → two flags: parses and `wfB`; `withinB`
   SYN.L <text> <text> …                                                                     → none | "P:3,4;E:8,9"            -/
import Pyx12Verif.Model.Proto
import Pyx12Verif.Model.Syntax

namespace Pyx12Verif.Drv.C14
open Pyx12Verif Proto Syn

def splitOnC (sep : Char) (s : List Char) : List (List Char) :=
  let rec go (cur : List Char) (acc : List (List Char)) : List Char → List (List Char)
    | [] => (cur.reverse :: acc).reverse
    | c :: r => if c = sep then go [] (cur.reverse :: acc) r else go (c :: cur) acc r
  go [] [] s

def natList (s : List Char) : List Nat :=
  if s.isEmpty then [] else (splitOnC ',' s).map natOf

def segOf (s : List Char) : Seg := s.map (fun c => if c = '1' then ['X'] else [])

def noteOf (s : List Char) : Note :=
  match splitOnC ':' s with
  | [c :: _, idx] => ⟨c, natList idx⟩
  | [c :: _] => ⟨c, []⟩
  | _ => ⟨'?', []⟩

def notesOf (s : List Char) : List Note :=
  if s.isEmpty then [] else (splitOnC ';' s).map noteOf

def showNats (l : List Nat) : String := ",".intercalate (l.map toString)

def showNote (n : Note) : String := String.singleton n.code ++ ":" ++ showNats n.idx

def showVerdict : Verdict → String
  | .valid => "valid"
  | .violated => "violated"
  | .crash => "crash"

def showErrs : Option (List EleErr) → String
  | none => "crash"
  | some es => ";".intercalate (es.map (fun e => String.ofList e.code ++ "@" ++ toString e.pos))

def showParse : Parse → String
  | .crash => "crash"
  | .dropped => "dropped"
  | .outside => "outside"
  | .ok n => "ok:" ++ showNote n

def wfText (t : List Char) (cc : Nat) : String :=
  match splitSyntax t with
  | .ok n => boolStr (wfB n) ++ boolStr (withinB n cc)
  | _ => "00"

def showNotes : Option (List Note) → String
  | none => "none"
  | some ns => ";".intercalate (ns.map showNote)

def handle : List (List Char) → Option String
  | [] => none
  | tag :: args =>
    match String.ofList tag, args with
    | "SYN.V", [c :: _, idx, seg] => some (showVerdict (isSyntaxValid (segOf seg) ⟨c, natList idx⟩))
    | "SYN.R", [notes, seg] => some (showErrs (syntaxErrors (segOf seg) (notesOf notes)))
    | "SYN.P", [t] => some (showParse (splitSyntax t))
    | "SYN.W", [t, cc] => some (wfText t (natOf cc))
    | "SYN.L", ts => some (showNotes (loadNotes ts))
    | _, _ => none

end Pyx12Verif.Drv.C14
