/- driver ops of the writer model (tag `C11`):
     C11W <term> <ele> <sub> <rep> <eol> <seg text>*
        X12Writer(stream, term, ele, sub, eol, rep); every segment is `Segment(text, term, ele, sub)` and is written in
        order.  Result (TAB separated, escaped):
          <end> <m> <emit_1> .. <emit_m> <close_0> .. <close_m> <loops bottom..top ;-separated> <counters>
        end   = "ok" | "raised" | "crash:<Exc>"   (what stopped the history after m successful writes)
        emit_i  = the text the i-th `Write` put on the stream
        close_i = the text `Close()` puts on the stream when called after i writes
        ("!" = printing raised: a composite without components)
     C11H <text>    RawX12File header parse of the first 106 characters:  K term ele sub rep icvn | E kind
-/
import Pyx12Verif.Model.Proto
import Pyx12Verif.Model.Writer
import Pyx12Verif.Drv.C04
import Pyx12Verif.Drv.C01

namespace Pyx12Verif.Drv.C11
open Pyx12Verif Proto Writer SegText

def textOf (c : Cfg) (segs : List Seg) : List Char :=
  match render c segs with
  | none => ['!']
  | some t => t

def excName : Writer.Exc → String
  | .base e => Drv.C04.excName e
  | .unboundLocal => "UnboundLocalError"

def stateFields (s : Envelope.RState) : List String :=
  [";".intercalate (s.loops.reverse.map Drv.C04.loopStr),
   ",".intercalate ([s.gsCount, s.stCount, s.segCount, s.hlCount, s.lxCount].map toString)]

def finish (endS : String) (_c : Cfg) (s : Envelope.RState) (emits closes : List (List Char)) : String :=
  "\t".intercalate ([endS, toString emits.length] ++ (emits.reverse.map escS) ++ (closes.reverse.map escS) ++ stateFields s)

/-- `emits`, `closes` are accumulated in reverse -/
def go (c : Cfg) : Envelope.RState → List Seg → List (List Char) → List (List Char) → String
  | s, [], emits, closes => finish "ok" c s emits closes
  | s, seg :: r, emits, closes =>
    match write c s seg with
    | .ok a => go c a.1 r (textOf c a.2 :: emits) (textOf c (close c a.1).2 :: closes)
    | .raised => finish "raised" c s emits closes
    | .crash e => finish ("crash:" ++ excName e) c s emits closes

def parseAll (d : Delims) : List (List Char) → List Seg
  | [] => []
  | t :: r =>
    match parseSeg d t with
    | none => parseAll d r
    | some s => s :: parseAll d r

def runW (c : Cfg) (texts : List (List Char)) : String :=
  go c (Envelope.RState.init false) (parseAll c.d texts) [] [textOf c (close c (Envelope.RState.init false)).2]

def headerOut : Tokenizer.HeaderRes → String
  | .error e => "E\t" ++ String.ofList (Drv.C01.errKind e)
  | .ok h => "\t".intercalate (["K", escS [h.seg], escS [h.ele], escS [h.sub], escS (Drv.C01.repField h.rep), escS h.icvn])

def handle : List (List Char) → Option String
  | ['C', '1', '1', 'W'] :: [t] :: [e] :: [s] :: [r] :: eol :: texts =>
      some (runW { d := { term := t, ele := e, sub := s }, rep := r, eol := eol } texts)
  | [['C', '1', '1', 'H'], text] => some (headerOut (Tokenizer.parseHeader (text.take Tokenizer.ISA_LEN)))
  | _ => none

end Pyx12Verif.Drv.C11
