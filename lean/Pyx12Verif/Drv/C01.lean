/- driver ops of the tokenizer / segment-text models (tag `C01`):
     C01R <text> <sizes: comma separated>   reader model over a stream with that read-size oracle
     C01P <text>                            reader specified on the text alone (declarative splitter)
     C01G <term> <ele> <sub> <string>       Segment(string, term, ele, sub): parse + format
     C01W <lo> <hi>                         code points c, lo <= c < hi, that `str.lstrip()` removes
   Results are TAB separated escaped fields:
     E <kind>                                                        constructor raised X12Error
     K term ele sub rep icvn crashed pending nsegs { errs id fmt nelems { nsub { value } } }
-/
import Pyx12Verif.Model.Proto
import Pyx12Verif.Model.Tokenizer
import Pyx12Verif.Model.SegText

namespace Pyx12Verif.Drv.C01
open Pyx12Verif Proto Tokenizer SegText

def natField (n : Nat) : List Char := (toString n).toList

def errCode : RErr → List Char
  | .leadingBlank => ['1']
  | .trailingSep => ['S', 'E', 'G', '1']

def errsField (es : List RErr) : List Char := joinWith ',' (es.map errCode)

def fmtField : Option (List Char) → List Char
  | none => ['!']
  | some s => '=' :: s

def compFields (c : List (List Char)) : List (List Char) := natField c.length :: c

def segFields (d : Delims) (s : Seg) : List (List Char) :=
  [s.id, fmtField (formatSeg d s), natField s.elems.length] ++ (s.elems.map compFields).flatten

def entryFields (d : Delims) (p : List RErr × Seg) : List (List Char) := errsField p.1 :: segFields d p.2

def repField : Option Char → List Char
  | none => ['-']
  | some c => ['+', c]

def errKind : HeaderErr → List Char
  | .notISA => "notISA".toList
  | .short => "short".toList
  | .badVersion => "badVersion".toList

def outFields : ReaderOutcome → List (List Char)
  | .error e => [['E'], errKind e]
  | .ok h r =>
    [['K'], [h.seg], [h.ele], [h.sub], repField h.rep, h.icvn, (if r.crashed then ['1'] else ['0']),
      errsField r.pending, natField r.segs.length] ++ (r.segs.map (entryFields (delimsOf h))).flatten

def render (fs : List (List Char)) : String := String.ofList (joinWith '\t' (fs.map esc))

def sizesOf (s : List Char) : List Nat := if s = [] then [] else (splitOn ',' s).map natOf

def specOutcome (text : List Char) : ReaderOutcome :=
  match rawSpec text with
  | .error e => .error e
  | .ok h lines => .ok h (readLines (delimsOf h) [] lines)

def segOut (d : Delims) : Option Seg → List (List Char)
  | none => [['N']]
  | some s => ['S'] :: segFields d s

def wsList (lo hi : Nat) : List Char :=
  joinWith ',' (((List.range (hi - lo)).map (· + lo)).filter (fun n => isPyWhitespace (Char.ofNat n)) |>.map natField)

def handle : List (List Char) → Option String
  | [['C', '0', '1', 'R'], text, sizes] => some (render (outFields (readAll { rest := text, sizes := sizesOf sizes })))
  | [['C', '0', '1', 'P'], text] => some (render (outFields (specOutcome text)))
  | [['C', '0', '1', 'G'], [t], [e], [s], str] =>
      some (render (segOut { term := t, ele := e, sub := s } (parseSeg { term := t, ele := e, sub := s } str)))
  | [['C', '0', '1', 'W'], lo, hi] => some (String.ofList (wsList (natOf lo) (natOf hi)))
  | _ => none

end Pyx12Verif.Drv.C01
