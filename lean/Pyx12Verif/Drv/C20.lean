/- driver op of the normaliser model (tag `C20`):
     C20N <eol 0/1> <fix 0/1> <file content>
   result (TAB separated, escaped):
     E <kind>      the reader's constructor raised X12Error (notISA | short | badVersion)
     R             X12Error out of the loop (ISA without 16 elements)
     C             another exception
     K <text>      the text written -/
import Pyx12Verif.Model.Proto
import Pyx12Verif.Model.Norm

namespace Pyx12Verif.Drv.C20
open Pyx12Verif Proto Norm

def errKind : Tokenizer.HeaderErr → String
  | .notISA => "notISA"
  | .short => "short"
  | .badVersion => "badVersion"

def render : FileRes → String
  | .headerError e => "E\t" ++ errKind e
  | .raised => "R"
  | .crash => "C"
  | .ok t => "K\t" ++ escS t

def handle : List (List Char) → Option String
  | [['C', '2', '0', 'N'], eol, fix, text] => some (render (normFile ⟨eol == ['1'], fix == ['1']⟩ text))
  | _ => none

end Pyx12Verif.Drv.C20
