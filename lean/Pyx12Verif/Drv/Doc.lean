/-
Stateful driver ops for the end-to-end document model (`Model/Document.lean`); optional values are `-` or `+value`.

  DINIT <ent> <hl> <ctx> <unk> <ISA_LOOP> <ISA> <GS_LOOP> <GS> <ST_LOOP> <HEADER> <BHT>     reset, set the constants
  DIDX  <n> (<icvnOpt> <vriicOpt> <ficOpt> <tspcOpt> <fileOpt>)*                          the map index (maps.xml)
  DEXT  <set id> <code>*                                                                  one external code set
  DMAP  <file> <is837 0/1> <v5010 0/1> <rootId> <skeleton numbers> <nintern> (<string> <number>)* <nsegs> <segdef>*
        segdef = <ip a.b.c> <sid> <name> <nnotes> <note text>* <nchildren> <child>*
        child  = e <elem> | c <usage> <seq> <name> <refdes> <deOpt> <nkids> <elem>*
        elem   = <usage> <dtype> <min> <max> <ncodes> <code>* <ext> <regex> <seq> <name> <refdes> <deOpt> <pc> <pr> <defined>
  DDOC  <extended 0/1> <date6> <time4> <date8> <time6> <gsCtl> <nhits> (<pattern> <value>)* <text>
        -> <outcome> <nsegs> (<sid> <matched 0/1> <fileOpt> <ip> <popped level:code,…> <nevents>)*
           <nfields> <event fields (as op E5 of Drv/C05)>* <tree> <lost> <errorCount> <ack kind> <ack crash|-> <ack segment>*
-/
import Pyx12Verif.Model.Proto
import Pyx12Verif.Model.Document
import Pyx12Verif.Drv.Walk
import Pyx12Verif.Drv.C05

namespace Pyx12Verif.Drv.Doc
open Pyx12Verif Proto Doc

structure DState where
  ms : Maps := { consts := ⟨0, 0, 0⟩, ids := ⟨0, 0, 0, 0, 0, 0, 0⟩, unk := 0, maps := [], index := [] }
  ext : List (Str × List Str) := []

abbrev FP (α : Type) := List Str → Option (α × List Str)

def optOf (f : Str) : Option Str :=
  match f with
  | '+' :: r => some r
  | _ => none

def b (s : Str) : Bool := s == ['1']

def pField : FP Str
  | [] => none
  | f :: r => some (f, r)

def pMany {α : Type} (p : FP α) : Nat → FP (List α)
  | 0, r => some ([], r)
  | n + 1, r =>
    match p r with
    | none => none
    | some (a, r1) =>
      match pMany p n r1 with
      | none => none
      | some (as, r2) => some (a :: as, r2)

def usageOf (s : Str) : ElemValid.Usage :=
  if s = ['R'] then .R else if s = ['S'] then .S else .N

def pElem : FP ElemX := fun fs =>
  match fs with
  | u :: ty :: mn :: mx :: nc :: r0 =>
    match r0.drop (natOf nc) with
    | ext :: rx :: sq :: nm :: rd :: de :: pc :: pr :: df :: r1 =>
      some ({ d := { usage := usageOf u, dataType := ty, minLen := natOf mn, maxLen := natOf mx,
                     codes := r0.take (natOf nc), extDeclared := !ext.isEmpty, hasRegex := !rx.isEmpty,
                     typeList := [], seq := natOf sq, parentComposite := b pc, parentRequired := b pr },
              defined := b df, name := nm, refdes := rd, dataEle := optOf de, ext := ext, regex := rx }, r1)
    | _ => none
  | _ => none

def pChild : FP ChildX := fun fs =>
  match fs with
  | ['e'] :: r => (pElem r).map (fun (e, r1) => (ChildX.elem e, r1))
  | ['c'] :: u :: sq :: nm :: rd :: de :: nk :: r =>
    (pMany pElem (natOf nk) r).map (fun (ks, r1) => (ChildX.comp (usageOf u) (natOf sq) nm rd (optOf de) ks, r1))
  | _ => none

def pSegDef : FP (List Nat × SegDef) := fun fs =>
  match fs with
  | ip :: sid :: nm :: nn :: r0 =>
    match Syn.loadNotes (r0.take (natOf nn)) with
    | none => none
    | some notes =>
      match r0.drop (natOf nn) with
      | nc :: r1 =>
        (pMany pChild (natOf nc) r1).map
          (fun (ch, r2) => ((Walk.nats '.' ip, { sid := sid, name := nm, children := ch, notes := notes }), r2))
      | [] => none
  | _ => none

def pIntern : FP (Str × Nat) := fun fs =>
  match fs with
  | s :: n :: r => some ((s, natOf n), r)
  | _ => none

def pIndex : FP IndexEntry := fun fs =>
  match fs with
  | a :: v :: f :: t :: m :: r =>
    some ({ icvn := optOf a, vriic := optOf v, fic := optOf f, tspc := optOf t, file := optOf m }, r)
  | _ => none

def pHit : FP (Str × Str) := fun fs =>
  match fs with
  | p :: v :: r => some ((p, v), r)
  | _ => none

/-! ### rendering -/

def optS : Option Str → String
  | none => "-"
  | some v => "+" ++ escS v

def geS : ErrTree.GeCount → String
  | .num n => "n" ++ toString n
  | .bad => "bad"
  | .absent => "absent"

def evFields : ErrTree.Event → List String
  | .addIsa d => ["ai", optS d.e05, optS d.e06, optS d.e07, optS d.e08, optS d.e09, optS d.e10, optS d.e11, optS d.e12,
                  optS d.e13, optS d.e14, optS d.e15]
  | .addGs d => ["ag", optS d.e01, optS d.e02, optS d.e03, optS d.e06, optS d.e07, optS d.e08, optS d.ctl]
  | .addSt d => ["as", optS d.e01, optS d.e03, optS d.ctl]
  | .addSeg i c l => ["sg", escS i, toString c, optS l]
  | .addEle p s r => ["el", toString p, (match s with | some n => "+" ++ toString n | none => "-"), optS r]
  | .isaError c => ["ie", escS c]
  | .gsError c => ["ge", escS c]
  | .stError c => ["se", escS c]
  | .segError c v => ["sr", escS c, optS v]
  | .eleError c m v => ["er", escS c, escS m, optS v]
  | .closeSt => ["cs"]
  | .closeGs g r => ["cg", geS g, toString r]
  | .closeIsa => ["ci"]

def excS : Envelope.Exc → String
  | .indexError => "IndexError"
  | .typeError => "TypeError"

def siteS : Site → String
  | .readerLine => "readerLine"
  | .getValue => "getValue"
  | .envelope e => "envelope:" ++ excS e
  | .elementValue => "elementValue"
  | .refDes => "refDes"
  | .syntaxNote => "syntaxNote"
  | .dataEle => "dataEle"
  | .nodeNone => "nodeNone"
  | .noSegDef => "noSegDef"
  | .errTree s => "errTree:" ++ C05.siteS s

def outcomeS : Outcome → String
  | .verdict v => "verdict:" ++ boolStr v
  | .refused _ => "refused"
  | .notX12 => "notX12"
  | .mapNotFound => "mapNotFound"
  | .mapLoadFailed => "mapLoadFailed"
  | .crash s => "crash:" ++ siteS s

def levelS : Level → String
  | .isa => "isa"
  | .gs => "gs"
  | .st => "st"
  | .seg => "seg"

def segFields (o : SegOut) : List String :=
  [escS o.sid, boolStr o.matched,
   (match o.node with | some n => "+" ++ escS n.1 | none => "-"),
   (match o.node with | some n => Walk.showIp n.2 | none => ""),
   ",".intercalate (o.popped.map (fun e => levelS e.level ++ ":" ++ escS e.code)),
   toString o.events.length]

def kindS : AckKind → String
  | .none => "none"
  | .a997 => "997"
  | .a999 => "999"

def tab (l : List String) : String := "\t".intercalate l

def render (r : DocResult) (p : Ack.Params) : String :=
  tab ([outcomeS r.outcome, toString r.segs.length] ++ (r.segs.map segFields).flatten ++
       [toString ((r.events.map evFields).flatten.length)] ++ (r.events.map evFields).flatten ++
       [C05.lst (r.final.tree.map C05.isaS), toString r.final.lost, toString (ErrTree.errorCount r.final.tree),
        kindS r.ackKind,
        (match (ackFor r p).crash with | none => "-" | some c => C05.asiteS c)] ++
       (ackFor r p).segs.map escS)

def memberOf (ext : List (Str × List Str)) (set v : Str) : Bool :=
  match ext.find? (fun p => p.1 == set) with
  | some p => p.2.contains v
  | none => false

def handle (st : DState) : List (List Char) → Option (DState × String)
  | [['D', 'I', 'N', 'I', 'T'], ent, hl, ctx, unk, il, i, gl, g, sl, h, bh] =>
    some ({ ms := { consts := ⟨natOf ent, natOf hl, natOf ctx⟩,
                    ids := ⟨natOf il, natOf i, natOf gl, natOf g, natOf sl, natOf h, natOf bh⟩,
                    unk := natOf unk, maps := [], index := [] }, ext := [] }, "ok")
  | ['D', 'I', 'D', 'X'] :: n :: r =>
    match pMany pIndex (natOf n) r with
    | some (idx, []) => some ({ st with ms := { st.ms with index := idx } }, s!"ok {idx.length}")
    | _ => some (st, "parse-error")
  | ['D', 'E', 'X', 'T'] :: name :: codes =>
    some ({ st with ext := (name, codes) :: st.ext.filter (fun p => p.1 != name) }, "ok")
  | ['D', 'M', 'A', 'P'] :: file :: i837 :: v5 :: rootId :: nums :: ni :: r =>
    match Walk.pList Walk.pNode ((Walk.nats ' ' nums).headD 0) ((Walk.nats ' ' nums).drop 1) with
    | some (root, []) =>
      match pMany pIntern (natOf ni) r with
      | some (tbl, ns :: r1) =>
        match pMany pSegDef (natOf ns) r1 with
        | some (defs, []) =>
          some ({ st with ms := { st.ms with maps :=
                    { file := file, is837 := b i837, v5010 := b v5, rootId := natOf rootId, root := root, defs := defs,
                      intern := tbl } :: st.ms.maps.filter (fun m => m.file != file) } },
                s!"ok {defs.length}")
        | _ => some (st, "parse-error:defs")
      | _ => some (st, "parse-error:intern")
    | _ => some (st, "parse-error:skeleton")
  | ['D', 'D', 'O', 'C'] :: ext :: d6 :: t4 :: d8 :: t6 :: gc :: nh :: r =>
    match pMany pHit (natOf nh) r with
    | some (hits, [text]) =>
      some (st, render
        (validateDoc st.ms { extended := b ext, extMember := memberOf st.ext,
                             regexFound := fun p v => hits.contains (p, v) } text)
        { date6 := d6, time4 := t4, date8 := d8, time6 := t6, gsCtl := gc })
    | _ => some (st, "parse-error")
  | _ => none

end Pyx12Verif.Drv.Doc
