/- driver ops for the HTML sink model (tag prefix H19):
   H19E <s>                      escape
   H19U <s>                      unescape
   H19T <s>                      stripTags
   H19G <s>                      tags
   H19M <E|S> <text> <code>      msgLine
   H19S <lineNo> <segterm> <eleterm> <subterm> <nmarks> (<pos> <sub|->)* <id> <nelems> (<nsubs> <sub>*)*   segLineM
   every result is protocol-escaped -/
import Pyx12Verif.Model.Proto
import Pyx12Verif.Model.HtmlOut

namespace Pyx12Verif.Drv.C19
open Pyx12Verif Proto Html

def takeMarks : Nat → List (List Char) → Option (List (Nat × Option Nat) × List (List Char))
  | 0, r => some ([], r)
  | n + 1, p :: q :: r =>
    match takeMarks n r with
    | some (ms, rest) => some ((natOf p, if q = ['-'] then none else some (natOf q)) :: ms, rest)
    | none => none
  | _, _ => none

def takeN : Nat → List (List Char) → Option (List (List Char) × List (List Char))
  | 0, r => some ([], r)
  | n + 1, x :: r =>
    match takeN n r with
    | some (xs, rest) => some (x :: xs, rest)
    | none => none
  | _, _ => none

def takeElems : Nat → List (List Char) → Option (List Elem × List (List Char))
  | 0, r => some ([], r)
  | n + 1, k :: r =>
    match takeN (natOf k) r with
    | some (first :: more, r') =>
      match takeElems n r' with
      | some (es, rest) => some (⟨first, more⟩ :: es, rest)
      | none => none
    | _ => none
  | _, _ => none

def segOp (lineNo : List Char) (st et ut : Char) (rest : List (List Char)) : Option String :=
  match rest with
  | nm :: r =>
    match takeMarks (natOf nm) r with
    | some (marks, id :: ne :: r') =>
      match takeElems (natOf ne) r' with
      | some (es, []) => some (escS (segLineM marks (natOf lineNo) ⟨id, es⟩ ⟨st, et, ut⟩))
      | _ => none
    | _ => none
  | _ => none

def handle : List (List Char) → Option String
  | [['H', '1', '9', 'E'], s] => some (escS (escape s))
  | [['H', '1', '9', 'U'], s] => some (escS (unescape s))
  | [['H', '1', '9', 'T'], s] => some (escS (stripTags s))
  | [['H', '1', '9', 'G'], s] => some (escS (tags s))
  | [['H', '1', '9', 'M'], k, t, c] =>
      some (escS (msgLine ⟨if k = ['E'] then Kind.element else Kind.segment, t, c⟩))
  | ['H', '1', '9', 'S'] :: lineNo :: [st] :: [et] :: [ut] :: rest => segOp lineNo st et ut rest
  | _ => none

end Pyx12Verif.Drv.C19
