/- driver ops for the XML sink / XML reader models (tag prefix `X8.`):
   X8.DOC <steps…>            → ok <xml text> <flags: wellFormed goodFromB stepsFitB> <n> <rebuilt segment>…   |  crash:<kind>
        step  = <npath> <loop id>… <first 0/1> <node id> <nchildren> <child>… <seg id> <ele term> <sub term> <nelems> <elem>…
        child = E <seq> <notUsed 0/1> <xid>   |   C <seq> <notUsed 0/1> <nsubs> <sub xid>…
        elem  = <term char> <nsubs> <value>…
   X8.ESC t|a <s>             → escaped text / attribute value
   X8.UNESC <s>               → entity-decoded
   X8.ROOT <first 0/1> <ncur> <id>… <nlast> <id>…   → <root path joined> <match idx> <decremented idx (-1 possible)>
   X8.SIB <npaths> (<n> <id>…)…                      → 1 | 0   (noSiblingLoopIdPrefix)
   X8.WFIDS <node id> <nchildren> <child>…           → 1 | 0   (wfIds)                                   -/
import Pyx12Verif.Model.Proto
import Pyx12Verif.Model.XmlIn
import Pyx12Verif.Spec.XmlSpec

namespace Pyx12Verif.Drv.C08
open Pyx12Verif Proto Xml Segment

abbrev Toks := List (List Char)

def takeN {α : Type} (f : Toks → Option (α × Toks)) : Nat → Toks → Option (List α × Toks)
  | 0, ts => some ([], ts)
  | n + 1, ts =>
    match f ts with
    | none => none
    | some (a, ts') =>
      match takeN f n ts' with
      | none => none
      | some (as, ts'') => some (a :: as, ts'')

def tok : Toks → Option (List Char × Toks)
  | [] => none
  | t :: r => some (t, r)

def counted {α : Type} (f : Toks → Option (α × Toks)) : Toks → Option (List α × Toks)
  | [] => none
  | n :: r => takeN f (natOf n) r

def flag (s : List Char) : Bool := s = ['1']

def child : Toks → Option (ChildDef × Toks)
  | k :: seq :: nu :: r =>
    if k = ['E'] then
      (match r with
       | xid :: r' => some (.elem (natOf seq) xid (flag nu), r')
       | [] => none)
    else
      (match counted tok r with
       | some (subs, r') => some (.comp (natOf seq) (flag nu) subs, r')
       | none => none)
  | _ => none

def charOf : List Char → Char
  | c :: _ => c
  | [] => ' '

def elemTok : Toks → Option (Comp × Toks)
  | t :: r =>
    (match counted tok r with
     | some (subs, r') => some (⟨charOf t, subs⟩, r')
     | none => none)
  | [] => none

def segDef : Toks → Option (SegDef × Toks)
  | sid :: r =>
    (match counted child r with
     | some (cs, r') => some (⟨sid, cs⟩, r')
     | none => none)
  | [] => none

def segObj : Toks → Option (SegObj × Toks)
  | sid :: et :: st :: r =>
    (match counted elemTok r with
     | some (es, r') => some (⟨sid, es, charOf et, charOf st⟩, r')
     | none => none)
  | _ => none

def step (ts : Toks) : Option (Step × Toks) :=
  match counted tok ts with
  | some (path, f :: r) =>
    (match segDef r with
     | some (nd, r') =>
       (match segObj r' with
        | some (sg, r'') => some (⟨path, flag f, nd, sg⟩, r'')
        | none => none)
     | none => none)
  | _ => none

partial def steps (ts : Toks) (acc : List Step) : Option (List Step) :=
  if ts.isEmpty then some acc.reverse
  else
    match step ts with
    | some (s, r) => steps r (s :: acc)
    | none => none

def errName : XErr → String
  | .index => "index"
  | .attribute => "attribute"
  | .engine => "engine"
  | .typeError => "type"
  | .seg .pathError => "seg.path"
  | .seg .engineError => "seg.engine"
  | .seg .indexError => "seg.index"
  | .seg .typeError => "seg.type"
  | .seg .unboundLocal => "seg.unbound"

def tabbed (l : List String) : String := "\t".intercalate l

def rebuilt (evs : List Ev) : String :=
  match buildTree evs with
  | some [root] =>
    (match convertSegs root with
     | .error e => "rebuild-crash:" ++ errName e
     | .ok ss => tabbed (toString ss.length :: ss.map (fun s => escS (formatSeg '~' '*' ':' s))))
  | _ => "not-a-tree"

def doc (ts : Toks) : String :=
  match steps ts [] with
  | none => "bad-op"
  | some ss =>
    match docEvents ss with
    | .error e => "crash:" ++ errName e
    | .ok evs =>
      tabbed ["ok", escS (xmlDecl ++ renderFrom 0 evs), boolStr (wellFormed evs) ++ boolStr (goodFromB [] ss) ++ boolStr (stepsFitB ss), rebuilt evs]

def showIdx : PyIdx → String
  | .neg1 => "-1"
  | .nat k => toString k

def root (f : List Char) (ts : Toks) : String :=
  match counted tok ts with
  | some (cur, r) =>
    (match counted tok r with
     | some (last, _) =>
       tabbed [escS (Path.joinWith '/' (rootPath cur last)), toString (pathMatchIdx last cur),
               showIdx (matchIdx last cur (flag f))]
     | none => "bad-op")
  | none => "bad-op"

def sib (ts : Toks) : String :=
  match counted (counted tok) ts with
  | some (paths, _) => boolStr (noSiblingLoopIdPrefix paths)
  | none => "bad-op"

def wf (ts : Toks) : String :=
  match segDef ts with
  | some (nd, _) => boolStr (wfIds nd)
  | none => "bad-op"

def handle : List (List Char) → Option String
  | [] => none
  | tag :: args =>
    match String.ofList tag, args with
    | "X8.DOC", ts => some (doc ts)
    | "X8.ESC", [k, s] => some (escS (if k = ['a'] then escapeAttr s else escapeText s))
    | "X8.UNESC", [s] => some (escS (unescape s))
    | "X8.ROOT", f :: ts => some (root f ts)
    | "X8.SIB", ts => some (sib ts)
    | "X8.WFIDS", ts => some (wf ts)
    | _, _ => none

end Pyx12Verif.Drv.C08
