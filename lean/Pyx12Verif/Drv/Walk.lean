/-
Stateful driver ops for the map skeleton and the walker model.
  WMAP <name> <ent> <hl> <ctx> <rootid> <n0 n1 …>   load a skeleton (numbers, preorder; see tools/xlate.py `skel_numbers`)
  WRESET                                          empty the counter
  WFORCE <loop key> <seg key>                     forceWalkCounterToLoopStart; keys `id,q;id,q`
  WWALK <name> <cur ip a.b.c> <sid> <v01> <v02> <v03> <v011>
        -> `<node ip>|<pops ;>|<pushes ;>|<errs kind@ip ;>`
  WCNT                                            counter dump
-/
import Pyx12Verif.Model.Proto
import Pyx12Verif.Model.Walker

namespace Pyx12Verif.Drv.Walk
open Pyx12Verif Proto MapSkel Walker

structure Loaded where
  name : List Char
  consts : Consts
  rootId : Nat
  root : List Node

structure DState where
  maps : List Loaded := []
  cnt : Counter := []

def splitOnChar (c : Char) (s : List Char) : List (List Char) :=
  let rec go (cur : List Char) (acc : List (List Char)) : List Char → List (List Char)
    | [] => (cur.reverse :: acc).reverse
    | x :: r => if x = c then go [] (cur.reverse :: acc) r else go (x :: cur) acc r
  go [] [] s

def nats (sep : Char) (s : List Char) : List Nat :=
  if s.isEmpty then [] else (splitOnChar sep s).map natOf

abbrev P (α : Type) := List Nat → Option (α × List Nat)

def pNat : P Nat
  | [] => none
  | n :: r => some (n, r)

def pList {α : Type} (p : P α) : Nat → List Nat → Option (List α × List Nat)
  | 0, r => some ([], r)
  | n + 1, r =>
    match p r with
    | none => none
    | some (a, r') =>
      match pList p n r' with
      | none => none
      | some (as, r'') => some (a :: as, r'')

def pElem : P Elem := fun r =>
  match r with
  | xid :: seq :: usage :: de :: isID :: isAN :: nk :: r1 =>
    let codes := r1.take nk
    match r1.drop nk with
    | ncodes :: ext :: regex :: r2 =>
      some ({ xid := xid, seq := seq, usage := usage, dataEle := de, isID := isID == 1, isAN := isAN == 1,
              codes := codes, ncodes := ncodes, ext := ext, regex := regex == 1 }, r2)
    | _ => none
  | _ => none

def pChild : P Child := fun r =>
  match r with
  | 0 :: r1 => (pElem r1).map (fun (e, r2) => (Child.elem e, r2))
  | 1 :: xid :: seq :: usage :: de :: n :: r1 =>
    (pList pElem n r1).map (fun (subs, r2) => (Child.comp xid seq usage de subs, r2))
  | _ => none

def pNote : P Note := fun r =>
  match r with
  | t :: n :: r1 => some ((t, r1.take n), r1.drop n)
  | _ => none

partial def pNode : P Node := fun r =>
  match r with
  | 0 :: sid :: qual :: pos :: usage :: maxUse :: nn :: r1 =>
    match pList pNote nn r1 with
    | some (notes, nc :: r2) =>
      (pList pChild nc r2).map (fun (ch, r3) => (Node.seg sid qual pos usage maxUse notes ch, r3))
    | _ => none
  | 1 :: lid :: pos :: usage :: rep :: w :: n :: r1 =>
    (pList pNode n r1).map (fun (ch, r2) => (Node.loop lid pos usage rep (w == 1) ch, r2))
  | _ => none

def showIp (ip : List Nat) : String := ".".intercalate (ip.map toString)
def showIps (l : List (List Nat)) : String := ";".intercalate (l.map showIp)

def kindStr : ErrKind → String
  | .segNotUsed => "segNotUsed"
  | .segMaxCount => "segMaxCount"
  | .loopNotUsed => "loopNotUsed"
  | .loopMaxCount => "loopMaxCount"
  | .mandatoryMissing => "mandatoryMissing"
  | .notFound => "notFound"

def parseKey (s : List Char) : PathKey :=
  if s.isEmpty then [] else
    (splitOnChar ';' s).map (fun c => match nats ',' c with
      | [a, b] => (a, b)
      | _ => (0, 0))

def handle (st : DState) : List (List Char) → Option (DState × String)
  | ['W', 'M', 'A', 'P'] :: name :: ent :: hl :: ctx :: rootId :: nums :: [] =>
    match pList pNode ((nats ' ' nums).headD 0) ((nats ' ' nums).drop 1) with
    | some (root, []) =>
      some ({ st with maps := { name := name, consts := ⟨natOf ent, natOf hl, natOf ctx⟩, rootId := natOf rootId,
                                 root := root } :: st.maps.filter (fun m => m.name != name) },
            s!"ok {root.length}")
    | _ => some (st, "parse-error")
  | [['W', 'R', 'E', 'S', 'E', 'T']] => some ({ st with cnt := [] }, "ok")
  | [['W', 'F', 'O', 'R', 'C', 'E'], lk, sk] =>
    some ({ st with cnt := forceLoopStart st.cnt (parseKey lk) (parseKey sk) }, "ok")
  | [['W', 'C', 'N', 'T']] =>
    some (st, ";".intercalate (st.cnt.map (fun (k, n) => ",".intercalate (k.map (fun (a, b) => s!"{a}:{b}")) ++ s!"={n}")))
  | [['W', 'W', 'A', 'L', 'K'], name, cur, sid, v01, v02, v03, v011] =>
    match st.maps.find? (fun m => m.name == name) with
    | none => some (st, "no-map")
    | some m =>
      let r := walk m.consts m.root m.rootId st.cnt (nats '.' cur)
                 { sid := natOf sid, v01 := natOf v01, v02 := natOf v02, v03 := natOf v03, v011 := natOf v011 }
      some ({ st with cnt := r.st.cnt },
        (match r.node with | some n => showIp n | none => "none") ++ "|" ++ showIps r.pops ++ "|" ++ showIps r.pushes ++ "|" ++
          ";".intercalate (r.st.errs.map (fun (k, ip) => kindStr k ++ "@" ++ showIp ip)))
  | _ => none

end Pyx12Verif.Drv.Walk
