/-
Stateful driver ops for the sink model (`Model/DocSinks.lean`); they read the maps loaded by the ops of `Drv/Doc.lean`
(`DINIT`, `DIDX`, `DEXT`, `DMAP`) and keep their own table of loop names.

  SKLN  <file> <n> (<ip a.b.c> <loop name>)*          loop names of one map file (`loop_node.name`, `'%s'` of it)
  SKDOC <extended 0/1> <date text> <nhits> (<pattern> <value>)* <text>
        -> <outcome> <xml> <html> <flags>
           xml / html = `+<text>` (protocol-escaped), or `-<reason>` when the model says the run does not complete
           (reason: `run` = no verdict, `view` = a node without definition / name, `sink:<XErr>` / `sink` = the sink raises).
           flags = `-` or three characters 0/1: `goodFromB [] steps`, `stepsFitB steps` (C08's per-run hypotheses on the
           `seg()` calls of this document) and `wellFormed` of the model's events.
  SKOK  -> <n> (<map file> <0/1>)* : for every loaded map that is not a control map, `mapsOKB` (C08 `noSiblingLoopIdPrefix`
           over all loop paths) of the maps {control maps, that map}; then `all` and the value for all loaded maps together,
           `all2` and `mapsOK2B` (per map + envelope paths across maps) for all loaded maps together.
        The message text of the tuples of `node.errors` (not modelled) is written as the empty string.
-/
import Pyx12Verif.Model.DocSinks
import Pyx12Verif.Drv.Doc
import Pyx12Verif.Drv.C08

namespace Pyx12Verif.Drv.DocSinks
open Pyx12Verif Proto Doc

structure DState where
  names : List (Str × List (List Nat × Str)) := []

def pName : Drv.Doc.FP (List Nat × Str) := fun fs =>
  match fs with
  | ip :: nm :: r => some ((Walk.nats '.' ip, nm), r)
  | _ => none

def nameIn (t : List (List Nat × Str)) (ip : List Nat) : Str :=
  match t.find? (fun p => p.1 == ip) with
  | some p => p.2
  | none => "?".toList

def loopNameOf (names : List (Str × List (List Nat × Str))) (file : Str) (ip : List Nat) : Str :=
  match names.find? (fun p => p.1 == file) with
  | some p => nameIn p.2 ip
  | none => "?".toList

def xmlOf (ms : Maps) (d : Delims) (rounds : Option (List Round)) : String :=
  match rounds with
  | none => "-run"
  | some _ =>
    match stepsOfRounds ms d rounds with
    | none => "-view"
    | some steps =>
      match XmlG.docEventsG steps with
      | .error e => "-sink:" ++ C08.errName e
      | .ok evs => "+" ++ escS (Xml.xmlDecl ++ Xml.renderFrom 0 evs)

/-- C08's per-run hypotheses and conclusion evaluated on the document: `goodFromB`, `stepsFitB`, `wellFormed` -/
def xmlFlags (ms : Maps) (d : Delims) (rounds : Option (List Round)) : String :=
  match stepsOfRounds ms d rounds with
  | none => "-"
  | some steps =>
    boolStr (Xml.goodFromB [] steps) ++ boolStr (Xml.stepsFitB steps) ++
      (match XmlG.docEventsG steps with
       | .error _ => "-"
       | .ok evs => boolStr (Xml.wellFormed evs))

def htmlOf (ms : Maps) (sc : SinkCtx) (d : Delims) (final : ErrTree.State) (rounds : Option (List Round)) : String :=
  match rounds with
  | none => "-run"
  | some _ =>
    match flattenOpt (htmlOfRounds ms sc d final rounds) with
    | none => "-sink"
    | some t => "+" ++ escS t

/-- one evaluation of `validateRead` shared by both sinks (`docSteps` / `docHtmlWrites` unfold to exactly these calls) -/
def answer (ms : Maps) (ctx : Ctx) (sc : SinkCtx) (text : List Char) : String :=
  match SegText.readAll { rest := text, sizes := [] } with
  | .error _ => "refused\t-run\t-run\t-"
  | .ok h rr =>
    let r := validateRead ms ctx h rr
    let rounds := roundsOf r rr
    "\t".intercalate [Drv.Doc.outcomeS r.outcome, xmlOf ms (SegText.delimsOf h) rounds,
                      htmlOf ms sc (SegText.delimsOf h) r.final rounds, xmlFlags ms (SegText.delimsOf h) rounds]

def ctxOf (doc : Drv.Doc.DState) (ext : Str) (hits : List (Str × Str)) : Ctx :=
  { extended := Drv.Doc.b ext, extMember := Drv.Doc.memberOf doc.ext, regexFound := fun p v => hits.contains (p, v) }

def isControl (m : MapX) : Bool := m.file == ctl401 || m.file == ctl501

def okFor (ms : Maps) (m : MapX) : Bool :=
  mapsOKB { ms with maps := ms.maps.filter isControl ++ [m] } (allPaths { ms with maps := ms.maps.filter isControl ++ [m] })

def okAnswer (ms : Maps) : String :=
  "\t".intercalate
    ([toString ((ms.maps.filter (fun m => !isControl m)).length)] ++
     ((ms.maps.filter (fun m => !isControl m)).map (fun m => [escS m.file, boolStr (okFor ms m)])).flatten ++
     ["all", boolStr (mapsOKB ms (allPaths ms)), "all2", boolStr (mapsOK2B ms)])

def handle (doc : Drv.Doc.DState) (st : DState) : List (List Char) → Option (DState × String)
  | ['S', 'K', 'L', 'N'] :: file :: n :: r =>
    match Drv.Doc.pMany pName (natOf n) r with
    | some (tbl, []) => some ({ names := (file, tbl) :: st.names.filter (fun p => p.1 != file) }, s!"ok {tbl.length}")
    | _ => some (st, "parse-error")
  | ['S', 'K', 'D', 'O', 'C'] :: ext :: date :: nh :: r =>
    match Drv.Doc.pMany Drv.Doc.pHit (natOf nh) r with
    | some (hits, [text]) =>
      some (st, answer doc.ms (ctxOf doc ext hits)
        { loopName := loopNameOf st.names, nodeMsg := fun _ _ => [], date := date } text)
    | _ => some (st, "parse-error")
  | [['S', 'K', 'O', 'K']] => some (st, okAnswer doc.ms)
  | _ => none

end Pyx12Verif.Drv.DocSinks
