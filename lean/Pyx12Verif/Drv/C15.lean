/-
driver ops for the element/composite validation model
  E15 <kind a|c|s> <value> <kid>                        -> "<0/1> <codes joined by ,>"
  K15 <patched 0/1> <usage> <present 0/1> <nvals> <val>* <nkids> <kid>*   -> "ok <0/1> <codes>" | "crash"
  <kid> = usage type min max extDeclared hasRegex seq parentComposite parentRequired
          extended v5010 extMember regexFound <ncodes> <code>* <ntypes> <type>*
-/
import Pyx12Verif.Model.Proto
import Pyx12Verif.Model.ElemValid

namespace Pyx12Verif.Drv.C15
open Pyx12Verif Proto ElemValid

def usageOf (s : List Char) : Usage :=
  if s = ['R'] then .R else if s = ['S'] then .S else .N

def b (s : List Char) : Bool := s == ['1']

def parseKid : List (List Char) → Option ((ElemDef × Ctx) × List (List Char))
  | u :: ty :: mn :: mx :: ed :: hr :: sq :: pc :: pr :: ex :: x5 :: em :: rf :: nc :: rest =>
    match rest.drop (natOf nc) with
    | ntl :: rest2 =>
      some (({ usage := usageOf u, dataType := ty, minLen := natOf mn, maxLen := natOf mx,
               codes := rest.take (natOf nc), extDeclared := b ed, hasRegex := b hr,
               typeList := rest2.take (natOf ntl), seq := natOf sq, parentComposite := b pc,
               parentRequired := b pr },
             { extended := b ex, v5010 := b x5, extMember := b em, regexFound := b rf }),
            rest2.drop (natOf ntl))
    | [] => none
  | _ => none

def parseKids : Nat → List (List Char) → Option (List (ElemDef × Ctx))
  | 0, _ => some []
  | n + 1, fs =>
    match parseKid fs with
    | none => none
    | some (k, rest) =>
      match parseKids n rest with
      | none => none
      | some ks => some (k :: ks)

def codesStr (cs : List Code) : String := ",".intercalate (cs.map toString)

def resStr (r : Bool × List Code) : String := boolStr r.1 ++ " " ++ codesStr r.2

def handle : List (List Char) → Option String
  | ['E', '1', '5'] :: kind :: v :: rest =>
    match parseKid rest with
    | none => some "bad-kid"
    | some ((d, ctx), _) =>
      some (resStr (elemValidIn d ctx
        (if kind = ['a'] then .absent else if kind = ['c'] then .composite else .simple v)))
  | ['K', '1', '5'] :: p :: u :: pres :: nv :: rest =>
    match rest.drop (natOf nv) with
    | nk :: rest2 =>
      match parseKids (natOf nk) rest2 with
      | none => some "bad-kids"
      | some kids =>
        match compValid (b p) (usageOf u) kids (if b pres then some (rest.take (natOf nv)) else none) with
        | .ok valid codes => some ("ok " ++ resStr (valid, codes))
        | .crashIterNone => some "crash"
    | [] => some "bad-comp"
  | _ => none

end Pyx12Verif.Drv.C15
