/- driver ops for the path / segment-addressing models (C17)

   P17 <path>                 -> E | ok rel nloops loop.. seg idval ele sub format empty
   Q17 <a> <b>                -> E | 1 | 0            X12Path(a) == X12Path(b)
   K17 <a> <child>            -> E | 1 | 0            X12Path(a).is_child_path(child)
   S17 <eleTerm> <subTerm> <id> <n> {<m> <sub>*m}*n  { G <d> | S <d> <val> }*
                              -> state { outcome state }*       (state = id n {term whole m sub*m}*n)
   optional values: "-" = None, "+text" = text; numbers: "-" = None
-/
import Pyx12Verif.Model.Proto
import Pyx12Verif.Model.Path
import Pyx12Verif.Model.Segment

namespace Pyx12Verif.Drv.C17
open Pyx12Verif Proto Path Segment

def optS : Option (List Char) → String
  | none => "-"
  | some s => "+" ++ escS s

def optN : Option Nat → String
  | none => "-"
  | some n => toString n

def tabs (xs : List String) : String := "\t".intercalate xs

def showPath (p : XPath) : String :=
  tabs (["ok", boolStr p.relative, toString p.loops.length] ++ p.loops.map escS ++
        [optS p.segId, optS p.idVal, optN p.eleIdx, optN p.subIdx, escS (format p), boolStr (isEmptyPath p)])

def errS : Err → String
  | .pathError => "EX12PathError"
  | .engineError => "EEngineError"
  | .indexError => "EIndexError"
  | .typeError => "ETypeError"
  | .unboundLocal => "EUnboundLocalError"

def fmtS (c : Comp) : String :=
  match fmtComp c with
  | .error e => errS e
  | .ok v => "V" ++ escS v

def showState (s : SegObj) : List String :=
  [escS s.id, toString s.elements.length] ++
    (s.elements.map (fun c => [escS [c.term], fmtS c, toString c.subs.length] ++ c.subs.map escS)).flatten

def takeN : Nat → List (List Char) → List (List Char) × List (List Char)
  | 0, r => ([], r)
  | _ + 1, [] => ([], [])
  | n + 1, x :: r => (x :: (takeN n r).1, (takeN n r).2)

def readElems : Nat → List (List Char) → List (List (List Char)) × List (List Char)
  | 0, r => ([], r)
  | _ + 1, [] => ([], [])
  | n + 1, m :: r =>
    let (subs, rest) := takeN (natOf m) r
    let (more, rest') := readElems n rest
    (subs :: more, rest')

def runOps (s : SegObj) : List (List Char) → List String
  | ['G'] :: d :: r =>
    (match getValue s d with
     | .error e => errS e
     | .ok none => "N"
     | .ok (some v) => "V" ++ escS v) :: (showState s ++ runOps s r)
  | ['S'] :: d :: v :: r =>
    (match set s d v with
     | .error e => errS e :: (showState s ++ runOps s r)
     | .ok s' => "OK" :: (showState s' ++ runOps s' r))
  | _ => []

def term1 (s : List Char) : Char := s.headD '?'

def handle : List (List Char) → Option String
  | [['P', '1', '7'], s] =>
    some (match parse s with
          | none => "E"
          | some p => showPath p)
  | [['Q', '1', '7'], a, b] =>
    some (match parse a, parse b with
          | some p, some q => boolStr (decide (p = q))
          | _, _ => "E")
  | [['K', '1', '7'], a, c] =>
    some (match parse a with
          | some p => boolStr (isChildPath p c)
          | none => "E")
  | ['S', '1', '7'] :: et :: st :: id :: n :: r =>
    let (elems, ops) := readElems (natOf n) r
    let s := ofSeg (term1 et) (term1 st) ⟨id, elems⟩
    some (tabs (showState s ++ runOps s ops))
  | _ => none

end Pyx12Verif.Drv.C17
