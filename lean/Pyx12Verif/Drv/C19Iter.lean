/- driver op for the cursor model (tag I19):

   I19R <item fields …>
     items: the event fields of op E5 (Drv/C05.lean: ai ag as sg el ie ge se sr er cs cg ci) and
            `dr <segment id>` = end of the loop body for one source segment (drain + gen_seg)

   answer (TAB separated): `ok` followed by one token per written line of the report, in order:
     `#`            a segment line
     `S:<code>`     message labelled "Segment Error Code"   (a tuple of `node.errors`)
     `E:<code>`     message labelled "Element Error Code"   (a tuple of an `err_ele`)
     `|`            end of the per-segment part; the tokens after it are the footer's messages
     `@<n>`         (after a second `|`) number of nodes handed to gen_seg per segment
   or `crash` when an error-handler call of the history raises. -/
import Pyx12Verif.Model.Proto
import Pyx12Verif.Model.ErrIter
import Pyx12Verif.Drv.C05

namespace Pyx12Verif.Drv.C19Iter
open Pyx12Verif Proto ErrTree ErrIter
open Pyx12Verif.Drv.C05 (optOf optNat geOf)

partial def items : List (List Char) → List Item
  | ['a', 'i'] :: a :: b :: c :: d :: e :: f :: g :: h :: i :: j :: k :: r =>
    .ev (.addIsa { e05 := optOf a, e06 := optOf b, e07 := optOf c, e08 := optOf d, e09 := optOf e, e10 := optOf f,
                   e11 := optOf g, e12 := optOf h, e13 := optOf i, e14 := optOf j, e15 := optOf k }) :: items r
  | ['a', 'g'] :: a :: b :: c :: d :: e :: f :: g :: r =>
    .ev (.addGs { e01 := optOf a, e02 := optOf b, e03 := optOf c, e06 := optOf d, e07 := optOf e, e08 := optOf f,
                  ctl := optOf g }) :: items r
  | ['a', 's'] :: a :: b :: c :: r => .ev (.addSt { e01 := optOf a, e03 := optOf b, ctl := optOf c }) :: items r
  | ['s', 'g'] :: a :: b :: c :: r => .ev (.addSeg a (natOf b) (optOf c)) :: items r
  | ['e', 'l'] :: a :: b :: c :: r => .ev (.addEle (natOf a) (optNat b) (optOf c)) :: items r
  | ['i', 'e'] :: a :: r => .ev (.isaError a) :: items r
  | ['g', 'e'] :: a :: r => .ev (.gsError a) :: items r
  | ['s', 'e'] :: a :: r => .ev (.stError a) :: items r
  | ['s', 'r'] :: a :: b :: r => .ev (.segError a (optOf b)) :: items r
  | ['e', 'r'] :: a :: b :: c :: r => .ev (.eleError a b (optOf c)) :: items r
  | ['c', 's'] :: r => .ev .closeSt :: items r
  | ['c', 'g'] :: a :: b :: r => .ev (.closeGs (geOf a) (natOf b)) :: items r
  | ['c', 'i'] :: r => .ev .closeIsa :: items r
  | ['d', 'r'] :: a :: r => .seg a :: items r
  | _ => []

def errTok (e : Err) : String :=
  match e.ref with
  | .node _ _ => "S:" ++ escS e.code
  | .ele _ _ _ => "E:" ++ escS e.code

def lineTok : Line → String
  | .seg => "#"
  | .err e => errTok e

def handle : List (List Char) → Option String
  | ['I', '1', '9', 'R'] :: fs =>
    match runEnd RState.init (items fs) with
    | none => some "crash"
    | some rs =>
      some ("\t".intercalate
        (["ok"] ++ ((runH RState.init (items fs)).flatMap Frame.lines).map lineTok ++ ["|"] ++
          (footer rs.st).map errTok ++ ["|"] ++
          (runH RState.init (items fs)).map (fun f => "@" ++ toString f.visits.length)))
  | _ => none

end Pyx12Verif.Drv.C19Iter
