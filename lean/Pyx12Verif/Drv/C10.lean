/- driver op for the data-tree model: one history per line

  T10 <map tree> <nroots> <data trees> <nops> <ops>          (every token is one TAB-separated field)

  map tree   L id pos pid gid nkids kids... | S id pos pid gid nmkeys key... hasq [key]      key = ele sub ncodes codes...
  data tree  l mapref nkids kids... | s mapref st et sub id nels (nsub subs...)... | d       mapref = preorder index
  op         gv|ex|ct|fi|se|dn r alen a... path | sv r alen a... path value | as|al|ds r alen a... text
             | an r alen a... j | cp r alen a...
  answer     per op  <result> TAB <checksum of the forest dump>, then TAB-separated final dumps of every root
-/
import Pyx12Verif.Model.Proto
import Pyx12Verif.Model.DataTree

namespace Pyx12Verif.Drv.C10
open Pyx12Verif Proto DataTree

abbrev P := StateT (List (List Char)) Option

def tok : P (List Char) := fun s => match s with
  | [] => none
  | t :: r => some (t, r)

def nat : P Nat := do
  let t ← tok
  pure (natOf t)

def chr : P Char := do
  let t ← tok
  match t with
  | [c] => pure c
  | _ => failure

partial def many {α : Type} (n : Nat) (p : P α) : P (List α) :=
  if n = 0 then pure [] else do
    let x ← p
    let r ← many (n - 1) p
    pure (x :: r)

def optNat : P (Option Nat) := do
  let n ← nat
  pure (if n = 0 then none else some n)

def qkey : P QKey := do
  let e ← nat
  let s ← optNat
  let n ← nat
  let cs ← many n tok
  pure { ele := e, sub := s, codes := cs }

partial def mnode : P MNode := do
  let k ← tok
  let id ← tok
  let pos ← nat
  let pid ← tok
  let gid ← tok
  if k = ['L'] then do
    let n ← nat
    let kids ← many n mnode
    pure (.loop { id := id, pos := pos, pid := pid, gid := gid } kids)
  else do
    let nm ← nat
    let mk ← many nm qkey
    let hq ← nat
    let q ← if hq = 0 then pure none else (do let k ← qkey; pure (some k))
    pure (.seg { id := id, pos := pos, pid := pid, gid := gid, mkeys := mk, qkey := q })

partial def flatten : MNode → List MNode
  | .seg d => [.seg d]
  | .loop h kids => .loop h kids :: (kids.map flatten).flatten

partial def dnode (tab : Array MNode) : P DNode := do
  let k ← tok
  if k = ['d'] then pure .dead
  else if k = ['l'] then do
    let r ← nat
    let n ← nat
    let kids ← many n (dnode tab)
    match tab[r]? with
    | some (.loop h mk) => pure (.loop h mk kids)
    | _ => failure
  else do
    let r ← nat
    let st ← chr
    let et ← chr
    let sb ← chr
    let id ← tok
    let ne ← nat
    let els ← many ne (do let ns ← nat; many ns tok)
    match tab[r]? with
    | some (.seg d) => pure (.seg d { id := id, els := els, st := st, et := et, sub := sb })
    | _ => failure

def addr : P (Nat × List Nat) := do
  let r ← nat
  let n ← nat
  let a ← many n nat
  pure (r, a)

def op : P Op := do
  let k ← tok
  let (r, a) ← addr
  match String.ofList k with
  | "gv" => do let p ← tok; pure (.getValue r a p)
  | "sv" => do let p ← tok; let v ← tok; pure (.setValue r a p v)
  | "ex" => do let p ← tok; pure (.existsQ r a p)
  | "ct" => do let p ← tok; pure (.count r a p)
  | "fi" => do let p ← tok; pure (.first r a p)
  | "se" => do let p ← tok; pure (.select r a p)
  | "as" => do let s ← tok; pure (.addSegment r a s)
  | "al" => do let s ← tok; pure (.addLoop r a s)
  | "an" => do let j ← nat; pure (.addNode r a j)
  | "ds" => do let s ← tok; pure (.deleteSegment r a s)
  | "dn" => do let p ← tok; pure (.deleteNode r a p)
  | "cp" => pure (.copy r a)
  | _ => failure

/-! output -/

def errName : Err → String
  | .path => "X12PathError"
  | .engine => "EngineError"
  | .index => "IndexError"
  | .type => "TypeError"
  | .attr => "AttributeError"
  | .assertion => "AssertionError"
  | .fuel => "FUEL"

def addrStr (a : List Nat) : String := ".".intercalate (a.map toString)

def resStr : Res → String
  | .none => "N"
  | .bool b => if b then "B1" else "B0"
  | .nat n => "I" ++ toString n
  | .str s => "S" ++ escS s
  | .addr r a => "A" ++ toString r ++ ":" ++ addrStr a
  | .addrs r l => "L" ++ toString r ++ ":" ++ ",".intercalate (l.map addrStr)
  | .err e => "E" ++ errName e

def rawComp (sb : Char) (c : List Str) : Str := joinWith sb c

/-- exact element structure of a segment (no trimming) -/
def rawSeg (s : Seg) : Str := s.id ++ (s.els.map (fun c => s.et :: rawComp s.sub c)).flatten ++ [s.st]

partial def dump : DNode → Str
  | .dead => "D;".toList
  | .seg d s => "S[".toList ++ d.id ++ "|".toList ++ (toString d.pos).toList ++ "]".toList ++ rawSeg s ++ ";".toList
  | .loop h _ cs => "L[".toList ++ h.id ++ "|".toList ++ (toString h.pos).toList ++ "](".toList
      ++ (cs.map dump).flatten ++ ")".toList

def fnv (s : Str) (h : UInt64) : UInt64 :=
  s.foldl (fun h c => (h ^^^ c.toNat.toUInt64) * 1099511628211) h

def forestSum (σ : Forest) : UInt64 :=
  σ.foldl (fun h t => fnv ['\n'] (fnv (dump t) h)) 14695981039346656037

partial def runOut (σ : Forest) : List Op → List String × Forest
  | [] => ([], σ)
  | o :: r =>
    let (res, σ2) := step σ o
    let (out, σ3) := runOut σ2 r
    (resStr res :: toString (forestSum σ2).toNat :: out, σ3)

def history : P String := do
  let m ← mnode
  let tab := (flatten m).toArray
  let nr ← nat
  let roots ← many nr (dnode tab)
  let no ← nat
  let ops ← many no op
  let (out, σ) := runOut roots ops
  pure ("\t".intercalate (out ++ σ.map (fun t => escS (dump t))))

def handle : List (List Char) → Option String
  | ['T', '1', '0'] :: rest =>
    match history rest with
    | some (s, []) => some s
    | some (_, _ :: _) => some "bad-history-trailing"
    | none => some "bad-history"
  | _ => none

end Pyx12Verif.Drv.C10
