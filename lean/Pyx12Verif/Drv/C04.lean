/- driver op for the envelope model:
   ENV <fixes: 3 chars 0/1 = d5 d6 d34> <check_837_lx 0/1> (<id> <cnt> <ctl> <n16 0/1>)*
   optional fields: "-" = absent, "=" ++ text = present.
   result (TAB separated): per-segment error lists (';' between segments, ',' inside) | end
   ("ok:" ++ cleanup errors | "crash:<Exc>" | "raised") | hl_stack bottom..top | counters | loops bottom..top
   ENVINT <text>  ->  the integer `pyInt` reads, or "none" -/
import Pyx12Verif.Model.Proto
import Pyx12Verif.Model.Envelope

namespace Pyx12Verif.Drv.C04
open Pyx12Verif Proto Envelope

def errName : Err → String
  | .isa025 => "isa:025" | .isa024 => "isa:024" | .isa001 => "isa:001" | .isa021 => "isa:021"
  | .isa023 => "isa:023" | .gs6 => "gs:6" | .gs3 => "gs:3" | .gs4 => "gs:4" | .gs5 => "gs:5"
  | .st23 => "st:23" | .st3 => "st:3" | .st4 => "st:4" | .st2 => "st:2"
  | .hl1 => "seg:HL1" | .hl2 => "seg:HL2" | .lx => "seg:LX"

def errList (es : List Err) : String := ",".intercalate (es.map errName)

def optOf : List Char → Option Str
  | '=' :: r => some r
  | _ => none

def views : List (List Char) → List SegView
  | i :: c :: k :: n :: r => ⟨i, optOf c, optOf k, n == ['1']⟩ :: views r
  | _ => []

def excName : Exc → String
  | .indexError => "IndexError"
  | .typeError => "TypeError"

def kindName : Kind → String
  | .isa => "ISA" | .gs => "GS" | .st => "ST"

def loopStr (l : Kind × Option Str) : String :=
  kindName l.1 ++ (match l.2 with | none => "-" | some t => "=" ++ escS t)

def stateStr (s : RState) : String :=
  ",".intercalate (s.hlStack.reverse.map toString) ++ "\t" ++
  ",".intercalate ([s.gsCount, s.stCount, s.segCount, s.hlCount, s.lxCount].map toString) ++ "\t" ++
  "\t".intercalate (s.loops.reverse.map loopStr)

def trace (fx : Fixes) : RState → List SegView → List String → String
  | s, [], acc => toString acc.length ++ ":" ++ ";".intercalate acc.reverse ++ "\tok:" ++ errList (cleanup s) ++ "\t" ++ stateStr s
  | s, v :: r, acc =>
    match step fx s v with
    | .ok a => trace fx a.1 r (errList a.2 :: acc)
    | .raised => toString acc.length ++ ":" ++ ";".intercalate acc.reverse ++ "\traised\t" ++ stateStr s
    | .crash e => toString acc.length ++ ":" ++ ";".intercalate acc.reverse ++ "\tcrash:" ++ excName e ++ "\t" ++ stateStr s

def fixesOf : List Char → Fixes
  | [a, b, c] => ⟨a == '1', b == '1', c == '1'⟩
  | _ => Fixes.all

def handle : List (List Char) → Option String
  | ['E', 'N', 'V'] :: fx :: chk :: rest =>
    some (trace (fixesOf fx) (RState.init (chk == ['1'])) (views rest) [])
  | [['E', 'N', 'V', 'I', 'N', 'T'], t] =>
    some (match pyInt t with | none => "none" | some i => toString i)
  | _ => none

end Pyx12Verif.Drv.C04
