/- driver op of the composed reader model (tag `C07`):
     C07R <text>    plain reading of the text (X12Reader on a stream answering every read in full):
                    "refused" | "raised:<k>" | "ok:<n>" | "crash:<k>"
-/
import Pyx12Verif.Model.Proto
import Pyx12Verif.Model.Pipeline

namespace Pyx12Verif.Drv.C07
open Pyx12Verif Pipeline

def render : ReadOutcome → String
  | .refused _ => "refused"
  | .raised k => "raised:" ++ toString k
  | .done n => "ok:" ++ toString n
  | .crash k _ => "crash:" ++ toString k

def handle : List (List Char) → Option String
  | [['C', '0', '7', 'R'], text] => some (render (readEnvelope { rest := text, sizes := [] }))
  | _ => none

end Pyx12Verif.Drv.C07
