/-
Driver op for the text-level round trip (`Model/Convert.lean` on top of `Model/DocSinks.lean`); uses the maps loaded by the
ops of Drv/Doc.lean (`DINIT`, `DIDX`, `DEXT`, `DMAP`: the `doc` part of the driver state).

  CVTXT <extended 0/1> <nhits> (<pattern> <value>)* <text>
        -> <xml> <outcome> <x12 text>
           xml      `+` the XML sink completes (`Doc.docXml` is `some`), `-` it does not (then outcome and text are `-`)
           outcome  `ok` | `notTree` | `getSegment:<XErr>` | `raised` | `crash:<Exc>` | `format`   (`Convert.ConvOut`)
           x12 text protocol-escaped text `convert` leaves on `fd_out` (`-` unless the outcome is `ok`)
-/
import Pyx12Verif.Model.Proto
import Pyx12Verif.Model.Convert
import Pyx12Verif.Model.DocSinks
import Pyx12Verif.Drv.Doc
import Pyx12Verif.Drv.DocSinks
import Pyx12Verif.Drv.C08

namespace Pyx12Verif.Drv.C08Text
open Pyx12Verif Proto Doc

def excS : Writer.Exc → String
  | .base .indexError => "base.index"
  | .base .typeError => "base.type"
  | .unboundLocal => "unbound"

def outS : Convert.ConvOut → String
  | .ok t => "ok\t" ++ escS t
  | .notTree => "notTree\t-"
  | .getSegment e => "getSegment:" ++ C08.errName e ++ "\t-"
  | .raised => "raised\t-"
  | .crash e => "crash:" ++ excS e ++ "\t-"
  | .format => "format\t-"

def answer (ms : Maps) (ctx : Ctx) (text : List Char) : String :=
  match Doc.docXml ms ctx text with
  | none => "-\t-\t-"
  | some evs => "+\t" ++ outS (Convert.convertText evs)

def handle (doc : Drv.Doc.DState) : List (List Char) → Option String
  | ['C', 'V', 'T', 'X', 'T'] :: ext :: nh :: r =>
    match Drv.Doc.pMany Drv.Doc.pHit (natOf nh) r with
    | some (hits, [text]) => some (answer doc.ms (Drv.DocSinks.ctxOf doc ext hits) text)
    | _ => some "parse-error"
  | _ => none

end Pyx12Verif.Drv.C08Text
