/-
Driver op for the envelope-nesting condition of Props/DocTotalFull.lean (`Spec/EnvNested.lean`), evaluated on the maps
loaded by the ops of Drv/Doc.lean (`DINIT`, `DIDX`, `DMAP`: the `doc` part of the driver state).

  NESTOK -> <n> (<map file> <set: 0/1> <ctl: 0 / 1 / `-`>)*
       set = `setNestedB ms m h` holds for a guard number `h` among the two canonical candidates (the number "ST" interns to
             in `m`; a number no string interns to — for maps that do not mention ST at all, e.g. the control maps)
       ctl = the same for `ctlNestedB` (guard "GS"), for the two control map files only (`-` otherwise)
  `EnvNested ms` (hypothesis of `doc_total_sharp_holds`, `doc_envelope_order`) holds when every `set` is 1 and every `ctl`
  is 1 (`Doc.envNestedB`, `Doc.envNested_of_b` in Props/DocTotalFull.lean).
-/
import Pyx12Verif.Model.Proto
import Pyx12Verif.Spec.EnvNested
import Pyx12Verif.Drv.Doc

namespace Pyx12Verif.Drv.DocNest
open Pyx12Verif Proto Doc

def ctlS (ms : Maps) (m : MapX) : String := if isCtlFile m then boolStr (ctlGuardOK ms m) else "-"

def answer (ms : Maps) : String :=
  "\t".intercalate
    ([toString ms.maps.length] ++ (ms.maps.map (fun m => [escS m.file, boolStr (setGuardOK ms m), ctlS ms m])).flatten ++
     ["all", boolStr (envNestedB ms)])

def handle (doc : Drv.Doc.DState) : List (List Char) → Option String
  | [['N', 'E', 'S', 'T', 'O', 'K']] => some (answer doc.ms)
  | _ => none

end Pyx12Verif.Drv.DocNest
