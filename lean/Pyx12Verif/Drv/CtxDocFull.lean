/-
Driver ops for the hypotheses of Props/CtxDocFull.lean, evaluated on the maps loaded by the ops of Drv/Doc.lean:

  XGOOD -> per loaded map `<file>=<7 bits>`: trList, ShapeUnamb, CtxMapOK, pin ISA, pin GS, pin BHT, bhtNodesOK
           (`mapGoodB` = all seven)
  XLID <numbers, space separated> -> per id `<id>=<a><b>`:
           a = `lidGoodB` over all loaded maps, b = `lidGoodB` over the maps that pass `mapGoodB` (`goodPart`)
  XUNA -> per loaded map `<file>=<WFMap><Unambiguous>` (for comparison: the stronger hypotheses of Props/C09Walk.lean)
-/
import Pyx12Verif.Model.Proto
import Pyx12Verif.Drv.Doc
import Pyx12Verif.Drv.C09
import Pyx12Verif.Proofs.CtxFullRun

namespace Pyx12Verif.Drv.CtxDocFull
open Pyx12Verif Proto Doc

def goodBits (ms : Maps) (m : MapX) : String :=
  String.join ([CtxWalk.trList m.root, CtxWalk.ShapeUnamb ms.consts m.root, CtxWalk.CtxMapOK m.root,
    pinOK ms m (isaPath ms) (isaLoopPath ms), pinOK ms m (gsPath ms) (gsLoopPath ms),
    pinOK ms m (bhtPath ms) (bhtLoopPath ms), bhtNodesOK ms m].map boolStr)

def lidBits (ms : Maps) (l : Nat) : String :=
  boolStr (lidGoodB ms (some l)) ++ boolStr (lidGoodB (goodPart ms) (some l))

def handle (st : Drv.Doc.DState) : List (List Char) → Option String
  | [['X', 'G', 'O', 'O', 'D']] =>
    some (" ".intercalate (st.ms.maps.map (fun m => escS m.file ++ "=" ++ goodBits st.ms m)))
  | [['X', 'L', 'I', 'D'], lids] =>
    some (" ".intercalate ((C09.splitSp lids).map (fun l => String.ofList l ++ "=" ++ lidBits st.ms (natOf l))))
  | [['X', 'U', 'N', 'A']] =>
    some (" ".intercalate (st.ms.maps.map (fun m => escS m.file ++ "=" ++ boolStr (WalkerGen.WFMap m.root) ++
      boolStr (WalkerGen.Unambiguous st.ms.consts m.root))))
  | _ => none

end Pyx12Verif.Drv.CtxDocFull
