/-
Driver op for the end-to-end context-reader model (`Model/CtxDoc.lean`); uses the maps loaded by the ops of Drv/Doc.lean
(`DINIT`, `DIDX`, `DMAP`: the `doc` part of the driver state).

  XCTX <lids: space separated numbers, `-` = no loop id> <text>
       -> per loop id:  <stop> <nfields> <yield field>* <nerrs> (<seg index> <walker codes a,b> <reader level:code,…>)*
          yield fields: `S` <formatted segment> <seg_count> <line>   |   `[` <loop id> … `]`
          stop: done | refused | notX12 | mapNotFound | mapLoadFailed | crash:<site>
  XPIN -> per loaded map `<file>=<0/1>`: `isaPinOK` (what `ctxDoc_total_sharp` assumes of the control maps)
-/
import Pyx12Verif.Model.Proto
import Pyx12Verif.Model.CtxDoc
import Pyx12Verif.Drv.Doc
import Pyx12Verif.Drv.C09

namespace Pyx12Verif.Drv.CtxDoc
open Pyx12Verif Proto Doc

def siteS : CSite → String
  | .readerLine => "readerLine"
  | .getValue => "getValue"
  | .envelope e => "envelope:" ++ Drv.Doc.excS e
  | .nodeNone => "nodeNone"
  | .reader c => "reader:" ++ C09.crashName c
  | .noParent => "noParent"

def stopS : CStop → String
  | .done => "done"
  | .refused _ => "refused"
  | .notX12 => "notX12"
  | .mapNotFound => "mapNotFound"
  | .mapLoadFailed => "mapLoadFailed"
  | .crash s => "crash:" ++ siteS s

/-- `seg.format()` of the source segment with index `k` -/
def fmtAt (d : Option Delims) (segs : List Seg) (k : Nat) : String :=
  match d, segs[k]? with
  | some dl, some s =>
    (match SegText.formatSeg dl s with
     | some t => escS t
     | none => "?format")
  | _, _ => "?segment"

mutual
def nodeFields (d : Option Delims) (segs : List Seg) : Ctx.DNode → List String
  | .seg s _ _ => ["S", fmtAt d segs s.text, toString s.segCount, toString s.line]
  | .loop p _ ch => ["[", toString ((Ctx.idOf p).getD 0)] ++ nodesFields d segs ch ++ ["]"]
def nodesFields (d : Option Delims) (segs : List Seg) : List Ctx.DNode → List String
  | [] => []
  | c :: r => nodeFields d segs c ++ nodesFields d segs r
end

def yieldFields (d : Option Delims) (segs : List Seg) : Ctx.Yield → List String
  | .plain s _ _ => ["S", fmtAt d segs s.text, toString s.segCount, toString s.line]
  | .tree t => nodeFields d segs t

def errFields (e : PlainErrs) : List String :=
  [toString e.seg, ",".intercalate (e.werrs.map escS),
   ",".intercalate (e.rerrs.map (fun x => Drv.Doc.levelS x.level ++ ":" ++ escS x.code))]

def delimsIn (text : List Char) : Option Delims :=
  match Tokenizer.parseHeader (text.take Tokenizer.ISA_LEN) with
  | .ok h => some (SegText.delimsOf h)
  | .error _ => none

def block (ms : Maps) (text : List Char) (lidS : List Char) : List String :=
  let lid : Option Nat := if lidS = ['-'] then none else some (natOf lidS)
  let o := ctxDoc ms lid text
  let d := delimsIn text
  let ys := (o.yields.map (yieldFields d o.segs)).flatten
  [stopS o.stop, toString ys.length] ++ ys ++ [toString o.errs.length] ++ (o.errs.map errFields).flatten

def handle (st : Drv.Doc.DState) : List (List Char) → Option String
  | [['X', 'C', 'T', 'X'], lids, text] =>
    some ("\t".intercalate ((C09.splitSp lids).map (block st.ms text)).flatten)
  | [['X', 'P', 'I', 'N']] =>
    some (" ".intercalate (st.ms.maps.map (fun m => escS m.file ++ "=" ++ boolStr (isaPinOK st.ms m))))
  | _ => none

end Pyx12Verif.Drv.CtxDoc
