/- driver op for the context-reader model:
     CTX <lids: space separated, `-` = no loop id> <answers: flat naturals>
   answer := text segCount line |path| path… first pos ppos |pops| (|p| p…)… |pushes| (|p| p… pos)…
   reply  := one block per loop id joined by `|`;  block := <consistent 0/1>;<yields>[ !<crash>]
   yields := `s<text>,<segCount>,<line>` | `[<loop id> <children>… ]`, space separated -/
import Pyx12Verif.Model.Proto
import Pyx12Verif.Model.CtxReader

namespace Pyx12Verif.Drv.C09
open Pyx12Verif Proto Ctx

def splitSp (s : List Char) : List (List Char) :=
  let rec go (cur : List Char) (acc : List (List Char)) : List Char → List (List Char)
    | [] => (if cur.isEmpty then acc else cur.reverse :: acc).reverse
    | x :: r => if x = ' ' then go [] (if cur.isEmpty then acc else cur.reverse :: acc) r else go (x :: cur) acc r
  go [] [] s

abbrev P (α : Type) := List Nat → Option (α × List Nat)

def pPath : P LPath
  | [] => none
  | n :: r => if r.length < n then none else some (r.take n, r.drop n)

def pPush : P (LPath × Nat) := fun r =>
  match pPath r with
  | some (p, pos :: r') => some ((p, pos), r')
  | _ => none

def pMany {α : Type} (p : P α) : Nat → List Nat → Option (List α × List Nat)
  | 0, r => some ([], r)
  | n + 1, r =>
    match p r with
    | none => none
    | some (a, r') =>
      match pMany p n r' with
      | none => none
      | some (as, r'') => some (a :: as, r'')

def pAnswer : P Answer := fun r =>
  match r with
  | text :: sc :: line :: r1 =>
    match pPath r1 with
    | some (path, first :: pos :: ppos :: npops :: r2) =>
      match pMany pPath npops r2 with
      | some (pops, npush :: r3) =>
        match pMany pPush npush r3 with
        | some (pushes, r4) =>
          some ({ seg := { text := text, segCount := sc, line := line }, path := path, first := first == 1, pos := pos,
                  ppos := ppos, pops := pops, pushes := pushes }, r4)
        | none => none
      | _ => none
    | _ => none
  | _ => none

partial def pAnswers (r : List Nat) (acc : List Answer) : Option (List Answer) :=
  if r.isEmpty then some acc.reverse
  else match pAnswer r with
    | some (a, r') => pAnswers r' (a :: acc)
    | none => none

partial def showNode : DNode → String
  | .seg s _ _ => s!"s{s.text},{s.segCount},{s.line}"
  | .loop p _ ch => s!"[{(idOf p).getD 0} " ++ String.join (ch.map (fun c => showNode c ++ " ")) ++ "]"

def showYield : Yield → String
  | .plain s _ _ => s!"s{s.text},{s.segCount},{s.line}"
  | .tree d => showNode d

def crashName : Crash → String
  | .noCurrentNode => "noCurrentNode"
  | .plainNodeAsLoop => "plainNodeAsLoop"
  | .popMismatch => "popMismatch"
  | .popPastRoot => "popPastRoot"
  | .pushOnNone => "pushOnNone"
  | .appendOnNone => "appendOnNone"
  | .pushAssert => "pushAssert"

def block (answers : List Answer) (lidS : List Char) : String :=
  let lid : Option LoopId := if lidS = ['-'] then none else some (natOf lidS)
  let run := ctxRunFull lid answers
  boolStr (consistentFrom lid { open_ := [], last := 0 } answers) ++ ";" ++
    " ".intercalate (run.yields.map showYield) ++
    (match run.crash with
     | none => ""
     | some c => " !" ++ crashName c)

def handle : List (List Char) → Option String
  | [['C', 'T', 'X'], lids, nums] =>
    match pAnswers ((splitSp nums).map natOf) [] with
    | none => some "parse-error"
    | some answers => some ("|".intercalate ((splitSp lids).map (block answers)))
  | _ => none

end Pyx12Verif.Drv.C09
