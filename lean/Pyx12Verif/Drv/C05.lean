/-
Driver op for the error-tree and acknowledgement models (C05, C06):

  E5 <legacy 0/1> <kind 997|999|none> <date6> <time4> <date8> <time6> <gsCtl> <event fields …>

events (each a tag field followed by its argument fields; optional values are `-` or `+value`):
  ai ×11 opt (ISA05 06 07 08 09 10 11 12 13 14 15) | ag ×7 opt (GS01 02 03 06 07 08 ctl) | as ×3 opt (ST01 ST03 ctl)
  sg id count lsOpt | el pos subOpt refOpt | ie code | ge code | se code | sr code valOpt | er code msg valOpt
  cs | cg <n<int>|bad|absent> recv | ci

answer (TAB separated):  ok|crash:<site>  <tree summary>  <lost>  <errorCount>  <ack crash|->  <rendered segment>…
-/
import Pyx12Verif.Model.Proto
import Pyx12Verif.Model.ErrTree
import Pyx12Verif.Model.Ack

namespace Pyx12Verif.Drv.C05
open Pyx12Verif Proto ErrTree Ack

def optOf (f : List Char) : Option Str :=
  match f with
  | '+' :: r => some r
  | _ => none

def optNat (f : List Char) : Option Nat :=
  match f with
  | '+' :: r => some (natOf r)
  | _ => none

def geOf (f : List Char) : GeCount :=
  match f with
  | 'n' :: '-' :: r => .num (-(Int.ofNat (natOf r)))
  | 'n' :: r => .num (Int.ofNat (natOf r))
  | 'b' :: _ => .bad
  | _ => .absent

partial def events : List (List Char) → List Event
  | ['a', 'i'] :: a :: b :: c :: d :: e :: f :: g :: h :: i :: j :: k :: r =>
    .addIsa { e05 := optOf a, e06 := optOf b, e07 := optOf c, e08 := optOf d, e09 := optOf e, e10 := optOf f,
              e11 := optOf g, e12 := optOf h, e13 := optOf i, e14 := optOf j, e15 := optOf k } :: events r
  | ['a', 'g'] :: a :: b :: c :: d :: e :: f :: g :: r =>
    .addGs { e01 := optOf a, e02 := optOf b, e03 := optOf c, e06 := optOf d, e07 := optOf e, e08 := optOf f,
             ctl := optOf g } :: events r
  | ['a', 's'] :: a :: b :: c :: r => .addSt { e01 := optOf a, e03 := optOf b, ctl := optOf c } :: events r
  | ['s', 'g'] :: a :: b :: c :: r => .addSeg a (natOf b) (optOf c) :: events r
  | ['e', 'l'] :: a :: b :: c :: r => .addEle (natOf a) (optNat b) (optOf c) :: events r
  | ['i', 'e'] :: a :: r => .isaError a :: events r
  | ['g', 'e'] :: a :: r => .gsError a :: events r
  | ['s', 'e'] :: a :: r => .stError a :: events r
  | ['s', 'r'] :: a :: b :: r => .segError a (optOf b) :: events r
  | ['e', 'r'] :: a :: b :: c :: r => .eleError a b (optOf c) :: events r
  | ['c', 's'] :: r => .closeSt :: events r
  | ['c', 'g'] :: a :: b :: r => .closeGs (geOf a) (natOf b) :: events r
  | ['c', 'i'] :: r => .closeIsa :: events r
  | _ => []

def q (s : Str) : String := toString s.length ++ ":" ++ escS s
def qo : Option Str → String
  | none => "-"
  | some s => q s
def qn : Option Nat → String
  | none => "-"
  | some n => toString n
def lst (l : List String) : String := "[" ++ ",".intercalate l ++ "]"
def b01 (b : Bool) : String := if b then "1" else "0"

def eleS (e : Ele) : String :=
  "E(" ++ toString e.pos ++ ";" ++ qn e.subpos ++ ";" ++ qo e.refNum ++ ";" ++
    lst (e.errors.map (fun x => q x.code ++ "/" ++ qo x.value)) ++ ")"
def segS (s : Seg) : String :=
  "S(" ++ q s.segId ++ ";" ++ toString s.segCount ++ ";" ++ qo s.lsId ++ ";" ++
    lst (s.errors.map (fun x => q x.code ++ "/" ++ qo x.value)) ++ ";" ++ lst (s.elements.map eleS) ++ ")"
def stS (s : St) : String :=
  "T(" ++ qo s.trnSetId ++ ";" ++ qo s.ctlNum ++ ";" ++ qo s.vriic ++ ";" ++ q s.ackCode ++ ";" ++ b01 s.closed ++ ";" ++
    lst (s.errors.map q) ++ ";" ++ lst (s.elements.map eleS) ++ ";" ++ lst (s.children.map segS) ++ ")"
def gsS (g : Gs) : String :=
  "G(" ++ qo g.fic ++ ";" ++ qo g.gs02 ++ ";" ++ qo g.gs03 ++ ";" ++ qo g.gs06 ++ ";" ++ qo g.gs07 ++ ";" ++
    qo g.vriic ++ ";" ++ qo g.ctlNum ++ ";" ++ qo g.ackCode ++ ";" ++ toString g.countOrig ++ ";" ++
    toString g.countRecv ++ ";" ++ b01 g.closed ++ ";" ++ lst (g.errors.map q) ++ ";" ++ lst (g.elements.map eleS) ++ ";" ++
    lst (g.children.map stS) ++ ")"
def isaS (a : Isa) : String :=
  "I(" ++ qo a.e05 ++ ";" ++ qo a.e06 ++ ";" ++ qo a.e07 ++ ";" ++ qo a.e08 ++ ";" ++ qo a.origDate ++ ";" ++
    qo a.origTime ++ ";" ++ qo a.e11 ++ ";" ++ qo a.e12 ++ ";" ++ qo a.trnSetId ++ ";" ++ qo a.ta1Req ++ ";" ++
    qo a.e15 ++ ";" ++ b01 a.closed ++ ";" ++ lst (a.errors.map q) ++ ";" ++ lst (a.elements.map eleS) ++ ";" ++
    lst (a.children.map gsS) ++ ")"

def siteS : Site → String
  | .addGsNoIsa => "AttributeError:add_gs_loop"
  | .addStNoGs => "AttributeError:add_st_loop"
  | .addEleNoSeg => "AttributeError:add_ele"
  | .isaErrorNoIsa => "AttributeError:isa_error"
  | .gsErrorNoGs => "AttributeError:gs_error"
  | .stErrorNoSt => "AttributeError:st_error"
  | .eleErrorNoSt => "AttributeError:_add_cur_seg"
  | .eleErrorNoEle => "AttributeError:_add_cur_ele"
  | .eleErrorNoSeg => "AttributeError:ele_error"
  | .closeIsaNoIsa => "AttributeError:close_isa_loop"
  | .closeGsNoGs => "AttributeError:close_gs_loop"
  | .closeStNoSt => "AttributeError:close_st_loop"

def asiteS : ASite → String
  | .rootNoIsa => "AttributeError:visit_root_pre"
  | .rootNoGs => "AttributeError:visit_root_pre"
  | .isaValueNone => "EngineError:visit_root_pre"
  | .gsValueNone => "EngineError|AttributeError:visit_root_pre"
  | .ak1ValueNone => "EngineError:visit_gs_pre"
  | .ak2NoId => "EngineError:visit_st_pre"
  | .ak2NoCtl => "AttributeError|EngineError:visit_st_pre"
  | .ak2NoVriic => "EngineError:visit_st_pre"
  | .stEleKey => "KeyError:__get_st_errors"
  | .seEleKey => "KeyError:__get_st_errors"
  | .isaEleKey => "KeyError:__get_isa_errors"
  | .ieaEleKey => "KeyError:__get_isa_errors"
  | .ta1ValueNone => "EngineError:visit_root_post"
  | .writerIsaLen => "X12Error:_parse_segment"

def ackOut (crash : Option ASite) (segs : List Str) : String :=
  (match crash with
   | none => "-"
   | some c => asiteS c) ++ segs.foldl (fun acc s => acc ++ "\t" ++ escS s) ""

def handle : List (List Char) → Option String
  | ['E', '5'] :: legacy :: kind :: d6 :: t4 :: d8 :: t6 :: gc :: evs =>
    match run State.init (events evs) with
    | .crash c => some ("crash:" ++ siteS c)
    | .ok s =>
      some ("ok\t" ++ lst (s.tree.map isaS) ++ "\t" ++ toString s.lost ++ "\t" ++ toString (errorCount s.tree) ++ "\t" ++
        (if kind = ['9', '9', '7'] then
           ackOut (ack997 { legacy := legacy == ['1'] } s
                     { date6 := d6, time4 := t4, date8 := d8, time6 := t6, gsCtl := gc }).crash
                  ((ack997 { legacy := legacy == ['1'] } s
                     { date6 := d6, time4 := t4, date8 := d8, time6 := t6, gsCtl := gc }).out.map render997)
         else if kind = ['9', '9', '9'] then
           ackOut (ack999 { legacy := legacy == ['1'] } s
                     { date6 := d6, time4 := t4, date8 := d8, time6 := t6, gsCtl := gc }).crash
                  ((ack999 { legacy := legacy == ['1'] } s
                     { date6 := d6, time4 := t4, date8 := d8, time6 := t6, gsCtl := gc }).out.map render999)
         else "none"))
  | _ => none

end Pyx12Verif.Drv.C05
